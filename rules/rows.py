"""R13 NO-MATERIALISE (stream-level abstract interpretation) and helpers for R12 ROW-LOOP-SHAPE."""
import ast

from sa.deps import Facts, base_name, names_in, pseudo
from sa.loader import AnalysisError, ClassInfo, FuncInfo, own_nodes, parent_chain
from sa.model import _const, fq, package_steps, processor_classes, row_loops, rowloop_signature, u, where

# level 2 = iterator of resources, level 1 = iterator of rows, level 0 = anything else

MATERIALISERS = {'builtins.list', 'builtins.tuple', 'builtins.set', 'builtins.frozenset', 'builtins.dict',
                 'builtins.sorted', 'builtins.reversed', 'builtins.len', 'builtins.sum', 'builtins.max', 'builtins.min',
                 'builtins.any', 'builtins.all', 'itertools.tee', 'itertools.cycle', 'json.dumps', 'json.dump',
                 'collections.Counter', 'collections.OrderedDict', 'itertools.permutations', 'itertools.combinations',
                 'itertools.product', 'builtins.bytes', 'builtins.bytearray', 'functools.reduce', 'random.shuffle',
                 'random.sample', 'itertools.groupby_all'}
STREAMERS = {'itertools.chain': 'max', 'itertools.islice': 'first', 'itertools.zip_longest': 'max', 'builtins.zip': 'max',
             'builtins.enumerate': 'first', 'builtins.iter': 'first', 'builtins.map': 'rest', 'builtins.filter': 'rest',
             'itertools.starmap': 'rest', 'itertools.takewhile': 'rest', 'itertools.dropwhile': 'rest',
             'itertools.chain.from_iterable': 'flatten', 'itertools.groupby': 'first', 'builtins.next': 'elem',
             'itertools.filterfalse': 'rest', 'itertools.accumulate': 'first'}
# external calls that may receive a stream without consuming it eagerly (lazy holders) or that are the drain idiom
NEUTRAL = {'functools.partial', 'collections.deque', 'builtins.isinstance', 'builtins.print', 'builtins.id', 'builtins.type',
           'builtins.hasattr', 'builtins.getattr', 'builtins.callable', 'builtins.repr', 'builtins.str',
           'datapackage.Resource', 'tableschema.Schema', 'tableschema.schema.Schema', 'builtins.super'}

OUT_OF_SCOPE_MODULES = {
    'dataflows.processors.sort_rows': 'buffering step (outside the property quantifier)',
    'dataflows.processors.join': 'buffering step (outside the property quantifier)',
    'dataflows.processors.duplicate': 'buffering step (outside the property quantifier)',
    'dataflows.processors.dumpers.to_sql': 'batched writer (fixed write batches are allowed by the property)',
    'dataflows.processors.parallelize': 'queues between threads/processes (outside the property quantifier)',
    'dataflows.cli': 'CLI wizard',
}
TERMINALS = {'dataflows.base.datastream_processor:DataStreamProcessor.safe_process':
             'the driver at the end of the pipeline: results() materialises by contract'}


class Levels:
    """Fixpoint of stream levels for (function, name) pairs."""

    def __init__(self, ctx):
        self.ctx = ctx
        self.repo, self.res = ctx.repo, ctx.res
        self.lv = {}      # (id(func node), name) -> level
        self.funcs = [f for f in self.repo.functions.values()
                      if f.module.name not in OUT_OF_SCOPE_MODULES and not f.module.name.startswith('dataflows.processors.parsers')]
        self.ret = {}     # id(func node) -> level of the call result
        self._seed()
        self._fix()

    def get(self, fi, name):
        f = fi
        while f is not None:
            k = (id(f.node), name)
            if k in self.lv:
                return self.lv[k]
            if name in self.res.local_bindings(f):
                return 0
            f = f.parent if isinstance(f.parent, FuncInfo) else None
        return 0

    def _set(self, fi, name, level):
        if level <= 0 or name is None:
            return False
        k = (id(fi.node), name)
        if self.lv.get(k, 0) < level:
            self.lv[k] = min(level, 2)
            return True
        return False

    def _seed(self):
        dsp = set(c.qualname for c in processor_classes(self.repo, self.res))
        for f in self.funcs:
            ps = f.all_params
            if ps == ['package'] and f.is_generator:
                self._set(f, 'package', 2)
            if ps == ['rows']:
                self._set(f, 'rows', 1)
            if f.cls is not None and f.cls.qualname in dsp:
                if f.name == 'process_resources' and len(f.params) > 1:
                    self._set(f, f.params[1], 2)
                if f.name == 'process_resource' and len(f.params) > 1:
                    self._set(f, f.params[1], 1)
                for p in f.params[1:]:
                    if p in ('iterator', 'rows'):
                        self._set(f, p, 1)
            if f.name == 'schema_validator' and 'iterator' in ps:
                self._set(f, 'iterator', 1)

    # -- level of an expression inside fi
    def level(self, fi, e, depth=0):
        if e is None or depth > 12:
            return 0
        if isinstance(e, ast.Name):
            # innermost enclosing for-loop that binds this name decides (names are reused across phases)
            prev = e
            for p in parent_chain(e):
                if isinstance(p, (ast.FunctionDef, ast.AsyncFunctionDef, ast.Lambda)):
                    break
                if isinstance(p, (ast.For, ast.AsyncFor)) and prev is not p.iter and prev is not p.target:
                    names = {}
                    self._bind_target(names, p.target, p.iter, self.level(fi, p.iter, depth + 1) - 1, fi, depth)
                    if e.id in names:
                        return names[e.id]
                prev = p
            return self.get(fi, e.id)
        if isinstance(e, ast.Attribute):
            if e.attr == 'res_iter':
                return 2
            if e.attr == 'iterable' and pseudo(e):
                return 1
            p = pseudo(e)
            if p is not None:
                return self.get(fi, p)
            if e.attr == 'it':
                return self.level(fi, e.value, depth + 1)
            return 0
        if isinstance(e, (ast.List, ast.Tuple, ast.Set)):
            m = max([self.level(fi, x, depth + 1) for x in e.elts] or [0])
            return min(m + 1, 2) if m > 0 else 0
        if isinstance(e, ast.Starred):
            return self.level(fi, e.value, depth + 1)
        if isinstance(e, ast.IfExp):
            return max(self.level(fi, e.body, depth + 1), self.level(fi, e.orelse, depth + 1))
        if isinstance(e, ast.BoolOp):
            return max(self.level(fi, v, depth + 1) for v in e.values)
        if isinstance(e, ast.NamedExpr):
            return self.level(fi, e.value, depth + 1)
        if isinstance(e, ast.GeneratorExp):
            it = self.level(fi, e.generators[0].iter, depth + 1)
            el = self._comp_elt_level(fi, e, depth)
            return max(it, min(el + 1, 2) if el > 0 else 0)
        if isinstance(e, ast.Call):
            return self._call_level(fi, e, depth)
        if isinstance(e, ast.Subscript):
            b = self.level(fi, e.value, depth + 1)
            return max(b - 1, 0) if b else 0
        return 0

    def _comp_elt_level(self, fi, comp, depth):
        # element variables of a comprehension: level(iter) - 1
        elt = comp.elt if not isinstance(comp, ast.DictComp) else comp.value
        names = {}
        for g in comp.generators:
            lv = self.level(fi, g.iter, depth + 1)
            self._bind_target(names, g.target, g.iter, lv - 1, fi, depth)
        if isinstance(elt, ast.Name) and elt.id in names:
            return names[elt.id]
        if isinstance(elt, ast.Call):
            return max([names.get(a.id, self.level(fi, a, depth + 1)) if isinstance(a, ast.Name)
                        else self.level(fi, a, depth + 1) for a in elt.args] or [0])
        return 0

    def _bind_target(self, names, target, iter_expr, lv, fi, depth):
        if isinstance(target, ast.Name):
            names[target.id] = max(lv, 0)
        elif isinstance(target, (ast.Tuple, ast.List)):
            # enumerate(x): (i, elem) ; zip(a, b): positional
            en = self.res.external_name(iter_expr) if isinstance(iter_expr, ast.Call) else None
            if en == 'builtins.enumerate' and len(target.elts) == 2:
                self._bind_target(names, target.elts[1], None, lv, fi, depth)
            elif en in ('builtins.zip', 'itertools.zip_longest') and len(target.elts) == len(iter_expr.args):
                for t, a in zip(target.elts, iter_expr.args):
                    self._bind_target(names, t, None, self.level(fi, a, depth + 1) - 1, fi, depth)
            else:
                for t in target.elts:
                    self._bind_target(names, t, None, 0, fi, depth)

    def _call_level(self, fi, c, depth):
        args = list(c.args) + [k.value for k in c.keywords]
        alv = [self.level(fi, a, depth + 1) for a in args]
        en = self.res.external_name(c)
        if en in STREAMERS:
            mode = STREAMERS[en]
            if mode == 'max':
                return max(alv or [0])
            if mode == 'first':
                return alv[0] if alv else 0
            if mode == 'rest':
                return max(alv[1:] or [0])
            if mode == 'flatten':
                return max((alv[0] if alv else 0) - 1, 0)
            if mode == 'elem':
                return max((alv[0] if alv else 0) - 1, 0)
        if en is not None:
            return 0
        tg = self.res._resolve_callee(c.func, fi.module, fi)
        best = 0
        for t in tg:
            if isinstance(t, FuncInfo):
                best = max(best, self.ret.get(id(t.node), 0))
            elif isinstance(t, ClassInfo):
                if t.name in ('ResourceWrapper', 'LazyIterator'):
                    best = max(best, max(alv or [0]), 1 if t.name == 'LazyIterator' else 0)
                elif t.name == 'DataStream':
                    best = 0
        if isinstance(c.func, ast.Attribute) and c.func.attr == 'iter' and not tg_is_repo(tg):
            return 1    # datapackage Resource.iter(...) / tabulator Stream.iter(...)
        if best == 0 and any(isinstance(t, tuple) and t[0] == 'indirect' for t in tg) and max(alv or [0]) > 0:
            # stored callable (self.caster, self.func, condition...) applied to a stream: assume it wraps lazily
            f = c.func
            if isinstance(f, ast.Attribute) and pseudo(f) and pseudo(f).startswith('self.'):
                return max(alv)
            if isinstance(f, ast.Name):
                return max(alv)
        return best

    def _fix(self):
        changed = True
        rounds = 0
        while changed:
            rounds += 1
            if rounds > 30:
                raise AnalysisError('stream-level fixpoint did not converge')
            changed = False
            for f in self.funcs:
                if isinstance(f.node, ast.Lambda):
                    body_nodes = list(ast.walk(f.node.body))
                else:
                    body_nodes = list(own_nodes(f.node))
                for n in body_nodes:
                    if isinstance(n, ast.Assign):
                        lv = self.level(f, n.value)
                        for t in n.targets:
                            if pseudo(t):
                                owner = f
                                changed |= self._set(owner, pseudo(t), lv)
                            elif isinstance(t, (ast.Tuple, ast.List)) and isinstance(n.value, (ast.Tuple, ast.List)) \
                                    and len(t.elts) == len(n.value.elts):
                                for a, b in zip(t.elts, n.value.elts):
                                    if pseudo(a):
                                        changed |= self._set(f, pseudo(a), self.level(f, b))
                    elif isinstance(n, (ast.For, ast.AsyncFor)):
                        lv = self.level(f, n.iter)
                        names = {}
                        self._bind_target(names, n.target, n.iter, lv - 1, f, 0)
                        for nm, l in names.items():
                            changed |= self._set(f, nm, l)
                    elif isinstance(n, ast.Call):
                        # propagate argument levels into repo callees
                        tg = self.res._resolve_callee(n.func, f.module, f)
                        if self.res.external_name(n) == 'functools.partial' and n.args:
                            # partial(g, a, b): a and b become g's first parameters when the partial is called
                            n = ast.copy_location(ast.Call(func=n.args[0], args=list(n.args[1:]), keywords=list(n.keywords)), n)
                            tg = self.res._resolve_callee(n.func, f.module, f)
                        for t in tg:
                            callee = None
                            drop = 0
                            if isinstance(t, FuncInfo):
                                callee = t
                                if t.cls is not None and isinstance(n.func, ast.Attribute) and \
                                        'staticmethod' not in [u(d) for d in t.node.decorator_list]:
                                    drop = 1
                            elif isinstance(t, ClassInfo):
                                callee = self.res.lookup_method(t, '__init__')
                                drop = 1
                            if callee is None or callee.module.name in OUT_OF_SCOPE_MODULES:
                                continue
                            ps = callee.params[drop:]
                            for i, a in enumerate(n.args):
                                if i < len(ps):
                                    changed |= self._set(callee, ps[i], self.level(f, a))
                            for k in n.keywords:
                                if k.arg in callee.all_params:
                                    changed |= self._set(callee, k.arg, self.level(f, k.value))
                    elif isinstance(n, (ast.Return,)) and n.value is not None:
                        lv = self.level(f, n.value)
                        if lv > self.ret.get(id(f.node), 0):
                            self.ret[id(f.node)] = lv
                            changed = True
                    elif isinstance(n, ast.Yield) and n.value is not None:
                        lv = self.level(f, n.value)
                        r = min(lv + 1, 2) if lv > 0 else 1
                        if r > self.ret.get(id(f.node), 0):
                            self.ret[id(f.node)] = r
                            changed = True
                    elif isinstance(n, ast.YieldFrom):
                        lv = max(self.level(f, n.value), 1)
                        if lv > self.ret.get(id(f.node), 0):
                            self.ret[id(f.node)] = lv
                            changed = True
                if isinstance(f.node, ast.Lambda):
                    lv = self.level(f, f.node.body)
                    if lv > self.ret.get(id(f.node), 0):
                        self.ret[id(f.node)] = lv
                        changed = True


def tg_is_repo(tg):
    return any(isinstance(t, (FuncInfo, ClassInfo)) for t in tg)


def _bounded_islice(ctx, fi, call):
    """list(itertools.islice(s, <constant>)) -> the constant (or its name), else None."""
    if not call.args:
        return None
    a = call.args[0]
    if isinstance(a, ast.Call) and ctx.res.external_name(a) == 'itertools.islice' and len(a.args) >= 2:
        lim = a.args[-1] if len(a.args) == 2 else a.args[2]
        if isinstance(lim, ast.Constant) and isinstance(lim.value, int):
            return lim.value
        p = pseudo(lim)
        if p and p.startswith('self.'):
            cls = ctx.repo.enclosing_class(call)
            if cls is not None:
                k, v = ctx.res.lookup_class_attr(cls, p[5:])
                if isinstance(v, ast.Constant) and isinstance(v.value, int):
                    return v.value
    return None


def r13_no_materialise(ctx, rule='R13', min_level=1):
    """min_level=2 restricts the rule to the iterator of *resources* (used by C01: a step that advances the upstream resource
    iterator past the resource it is delivering changes the interleaving with upstream steps)."""
    run = ctx.run
    run.rule(rule, 'NO-MATERIALISE: no upstream row / resource stream of a non-buffering step reaches a materialising sink '
                   '(list, tuple, set, dict, sorted, reversed, len, sum, max, min, any, all, comprehension into a container, '
                   '*unpacking, deque without maxlen=0, itertools.tee/cycle, json.dumps, str.join); the only bounded idiom '
                   'accepted is list(itertools.islice(s, <constant>)); rows are yielded inside the loop that reads them')
    L = Levels(ctx)
    n_funcs = 0
    n_sites = 0
    # a helper of the terminal (the driver) that is handed the resource being consumed inside the driver's loop, and is called
    # from nowhere else, is part of the terminal: `results.append(self._collect_rows(res))`
    terminal = dict(TERMINALS)
    sites = {}
    for g in ctx.repo.functions.values():
        if isinstance(g.node, ast.Lambda):
            continue
        for c in own_nodes(g.node):
            if isinstance(c, ast.Call):
                for t in ctx.res._resolve_callee(c.func, g.module, g):
                    if isinstance(t, FuncInfo):
                        sites.setdefault(t.qualname, []).append((g, c))
    for q, ss in sites.items():
        if q in terminal or not ss:
            continue
        ok_all = True
        for g, c in ss:
            if g.qualname not in TERMINALS:
                ok_all = False
                break
            loops = [a for a in parent_chain(c) if isinstance(a, (ast.For, ast.AsyncFor))]
            lv_names = {n_.id for l_ in loops for n_ in ast.walk(l_.target) if isinstance(n_, ast.Name)}
            if not (loops and any(isinstance(a, ast.Name) and a.id in lv_names for a in list(c.args) + [k.value for k in c.keywords])):
                ok_all = False
                break
        if ok_all:
            terminal[q] = 'helper of the driver loop, called only there with the resource being consumed'
    for f in L.funcs:
        if f.qualname in terminal:
            run.note('%s exempt: %s' % (f.qualname, terminal[f.qualname]))
            continue
        nodes = list(ast.walk(f.node.body)) if isinstance(f.node, ast.Lambda) else list(own_nodes(f.node))
        has_stream = any(k[0] == id(f.node) for k in L.lv) or \
            any(isinstance(n, ast.Attribute) and n.attr in ('res_iter',) for n in nodes)
        if not has_stream:
            continue
        n_funcs += 1
        for n in nodes:
            if isinstance(n, ast.Call):
                en = ctx.res.external_name(n)
                args = list(n.args) + [k.value for k in n.keywords]
                lv = [L.level(f, a) for a in args]
                if not any(lv):
                    # method call on a stream? x.sort() etc. are not applicable to iterators
                    if isinstance(n.func, ast.Attribute) and n.func.attr == 'join' and args and L.level(f, args[0]):
                        pass
                    else:
                        continue
                n_sites += 1
                if en in MATERIALISERS or (isinstance(n.func, ast.Attribute) and n.func.attr == 'join'
                                           and isinstance(n.func.value, ast.Constant)):
                    if max(lv) < min_level:
                        continue
                    if en == 'builtins.list':
                        b = _bounded_islice(ctx, f, n)
                        if b is not None:
                            run.ok(rule, where(ctx.repo, n), f.qualname + ': ' + u(n), 'bounded sample of %d rows' % b)
                            continue
                    run.fail(rule, where(ctx.repo, n), f.qualname, n,
                             'an upstream stream (level %d) is materialised by %s: look-ahead grows with the data'
                             % (max(lv), en or 'str.join'))
                    continue
                if en == 'collections.deque':
                    if max(lv or [0]) < min_level:
                        continue
                    drain = any(k.arg == 'maxlen' and _const(k.value) == 0 for k in n.keywords) or \
                        (len(n.args) > 1 and _const(n.args[1]) == 0)
                    # draining reads ahead of nothing downstream: it discards, memory stays constant
                    run.check(drain, rule, where(ctx.repo, n), f.qualname, n,
                              'a stream is collected into an unbounded deque')
                    continue
                if en in STREAMERS or en in NEUTRAL:
                    run.ok(rule, where(ctx.repo, n), f.qualname + ': ' + u(n)[:120], 'lazy wrapper %s' % en)
                    continue
                if en is not None:
                    raise AnalysisError('%s: external call %s receives a stream and is in neither the streaming nor the '
                                        'materialising table' % (where(ctx.repo, n), en))
                run.ok(rule, where(ctx.repo, n), f.qualname + ': ' + u(n)[:120], 'repository call (followed)')
            elif isinstance(n, (ast.ListComp, ast.SetComp, ast.DictComp)):
                lv = L.level(f, n.generators[0].iter)
                if lv and lv >= min_level:
                    n_sites += 1
                    run.fail(rule, where(ctx.repo, n), f.qualname, n,
                             'a comprehension collects an upstream stream (level %d) into a container' % lv)
            elif isinstance(n, ast.Starred) and isinstance(n.ctx, ast.Load):
                lv = L.level(f, n.value)
                if lv and lv >= min_level:
                    n_sites += 1
                    run.fail(rule, where(ctx.repo, n), f.qualname, n, 'a stream is unpacked with * (materialised)')
        # next() on an upstream stream inside an unbounded loop whose result is kept (or that never yields)
        if not isinstance(f.node, ast.Lambda) and min_level <= 1:
            facts_n = Facts(f, include_nested=False)
            for lp in [x for x in own_nodes(f.node) if isinstance(x, (ast.While, ast.For, ast.AsyncFor))]:
                bounded = isinstance(lp, ast.For) and isinstance(lp.iter, ast.Call) and \
                    ((ctx.res.external_name(lp.iter) == 'builtins.range' and all(isinstance(a, ast.Constant) for a in lp.iter.args)) or
                     (ctx.res.external_name(lp.iter) == 'itertools.islice' and isinstance(lp.iter.args[-1], ast.Constant)))
                if bounded:
                    continue
                for c in ast.walk(lp):
                    if isinstance(c, ast.Call) and isinstance(c.func, ast.Name) and c.func.id == 'next' and c.args \
                            and L.level(f, c.args[0]) >= 1:
                        n_sites += 1
                        has_yield = any(isinstance(y, (ast.Yield, ast.YieldFrom)) for y in ast.walk(lp))
                        holder = None
                        par = getattr(c, '_parent', None)
                        if isinstance(par, ast.Assign) and len(par.targets) == 1:
                            holder = pseudo(par.targets[0])
                        kept = False
                        for x in ast.walk(lp):
                            if isinstance(x, ast.Call) and isinstance(x.func, ast.Attribute) and \
                                    x.func.attr in ('append', 'add', 'insert', 'extend', 'appendleft', 'setdefault', 'update'):
                                if any(a is c or (holder and holder in facts_n.roots(a)) for a in x.args):
                                    kept = True
                        run.check(has_yield and not kept, rule, where(ctx.repo, c), f.qualname, 'loop with ' + u(c),
                                  'an unbounded loop pulls rows from an upstream stream with next() and %s: the number of rows '
                                  'read ahead depends on the data' % ('keeps them in a container' if kept else 'yields nothing'))
        # accumulate-then-yield / read-all-then-yield
        if not isinstance(f.node, ast.Lambda) and f.is_generator:
            facts = Facts(f, include_nested=False)
            for loop in [x for x in own_nodes(f.node) if isinstance(x, (ast.For, ast.AsyncFor))]:
                lv = L.level(f, loop.iter)
                if not lv or lv < min_level:
                    continue
                n_sites += 1
                tnames = set(x.id for x in ast.walk(loop.target) if isinstance(x, ast.Name))
                has_yield = any(isinstance(x, (ast.Yield, ast.YieldFrom)) for x in ast.walk(loop))
                stored = []
                for x in ast.walk(loop):
                    if isinstance(x, ast.Call) and isinstance(x.func, ast.Attribute) and \
                            x.func.attr in ('append', 'add', 'insert', 'extend', 'appendleft', 'setdefault', 'update'):
                        if any(facts.roots(a) & tnames for a in x.args):
                            stored.append(x)
                    if isinstance(x, (ast.Assign, ast.AugAssign)):
                        tg = x.targets if isinstance(x, ast.Assign) else [x.target]
                        if any(isinstance(t, ast.Subscript) and not (base_name(t) in tnames) for t in tg) and \
                                facts.roots(x.value) & tnames:
                            stored.append(x)
                if not has_yield and stored:
                    run.fail(rule, where(ctx.repo, loop), f.qualname, 'for %s in %s: %s' % (u(loop.target), u(loop.iter),
                                                                                               u(stored[0])),
                             'the loop reads a whole upstream stream into a container before anything is yielded')
                    continue
                # yields after the loop that depend on accumulators fed in the loop
                acc = set()
                for x in stored:
                    b = base_name(x.func.value) if isinstance(x, ast.Call) else None
                    if b:
                        acc.add(b)
                body = getattr(loop._parent, 'body', [])
                late = []
                if loop in body:
                    for st in body[body.index(loop) + 1:]:
                        for y in ast.walk(st):
                            if isinstance(y, (ast.Yield, ast.YieldFrom)) and y.value is not None and \
                                    (facts.roots(y.value) & acc):
                                late.append(y)
                            if isinstance(y, ast.For) and (names_in(y.iter) & acc) and \
                                    any(isinstance(z, (ast.Yield, ast.YieldFrom)) for z in ast.walk(y)):
                                late.append(y)
                run.check(not (late and lv >= 1 and not _bounded_acc(loop, acc)), rule, where(ctx.repo, loop), f.qualname,
                          'for %s in %s' % (u(loop.target), u(loop.iter)),
                          'rows collected in %s during the loop are only emitted after the upstream stream is exhausted'
                          % ', '.join(sorted(acc)))
                # rows held back inside the loop: a container fed from the loop variable is emitted from inside the same loop (a
                # flush).  How far upstream is read before a held row goes out is then the distance to the flush: it must be a
                # size test on the container (a batch), not an event in the data.
                if acc and has_yield and lv >= 1:
                    flushed_in = set()
                    for y in ast.walk(loop):
                        if isinstance(y, ast.YieldFrom) and (names_in(y.value) & acc):
                            flushed_in |= names_in(y.value) & acc
                        if isinstance(y, ast.For) and y is not loop and (names_in(y.iter) & acc) and \
                                any(isinstance(z, (ast.Yield, ast.YieldFrom)) for z in ast.walk(y)):
                            flushed_in |= names_in(y.iter) & acc
                        if isinstance(y, ast.Yield) and y.value is not None and (names_in(y.value) & acc) and \
                                not (names_in(y.value) & tnames):
                            flushed_in |= names_in(y.value) & acc
                    in_loop = {id(x_) for x_ in ast.walk(loop)}
                    outside = {pseudo(t_) for x_ in own_nodes(f.node) if isinstance(x_, ast.Assign) and id(x_) not in in_loop
                               for t_ in x_.targets if pseudo(t_)}
                    flushed_in &= outside          # (a container made anew for every row is the row being built, not a buffer)
                    for a_ in sorted(flushed_in):
                        sized = any(isinstance(c_, ast.Compare) and any(isinstance(l_, ast.Call) and isinstance(l_.func, ast.Name)
                                                                        and l_.func.id == 'len' and l_.args and pseudo(l_.args[0]) == a_
                                                                        for l_ in [c_.left] + list(c_.comparators))
                                    for c_ in ast.walk(loop))
                        run.check(sized, rule, where(ctx.repo, loop), f.qualname, 'rows held in %s are flushed on a size test' % a_,
                                  'rows are held back in %s and passed on only when something in the data says so (no test on the size of '
                                  'the container): the number of rows read from upstream before a held row is delivered grows with the data'
                                  % a_)
    run.floor(rule, n_funcs, 30, 'functions handling streams')
    run.analysed['stream_functions'] = n_funcs
    run.analysed['stream_sites'] = n_sites
    return L


def _bounded_acc(loop, acc):
    return False


def r13_lazy_chain(ctx, rule='R13z'):
    run = ctx.run
    run.rule(rule, 'LAZY-CHAIN: _process builds the step output without iterating the upstream streams: get_iterator returns '
                   'a function, _process wraps it in LazyIterator, and no loop / next / list over the upstream streams '
                   'occurs in _process or get_iterator outside the returned function')
    dsp = ctx.repo.cls('dataflows.base.datastream_processor:DataStreamProcessor')
    pr = dsp.methods['_process']
    gi = dsp.methods['get_iterator']
    li = ctx.repo.cls('dataflows.base.datastream_processor:LazyIterator')
    # DataStream(..., LazyIterator(self.get_iterator(datastream)), ...)
    ok = False
    for n in own_nodes(pr.node):
        if isinstance(n, ast.Call) and ctx.res.instantiates(n, 'DataStream'):
            for a in list(n.args) + [k.value for k in n.keywords]:
                if isinstance(a, ast.Call) and ctx.res.instantiates(a, 'LazyIterator') and a.args and \
                        isinstance(a.args[0], ast.Call) and isinstance(a.args[0].func, ast.Attribute) and \
                        a.args[0].func.attr == 'get_iterator':
                    ok = True
    run.check(ok, rule, pr.where, pr.qualname, 'DataStream(dp, LazyIterator(self.get_iterator(datastream)), stats)',
              'the step output is not a lazy iterator over get_iterator(): upstream would be pulled when the chain is built')
    # LazyIterator.__iter__ calls the stored function, __init__ only stores it
    it = li.methods.get('__iter__')
    init = li.methods.get('__init__')
    ok = it is not None and any(isinstance(n, ast.Return) and isinstance(n.value, ast.Call) and
                                pseudo(n.value.func) == 'self.get_iterator' for n in own_nodes(it.node))
    ok = ok and init is not None and not any(isinstance(n, ast.Call) for n in own_nodes(init.node))
    run.check(ok, rule, li.where, li.qualname, '__init__ stores, __iter__ calls',
              'LazyIterator evaluates its iterator before the consumer starts')
    # get_iterator returns a nested function; outside it no iteration over res_iter
    nested = [f for f in ctx.repo.functions.values() if f.parent is gi and not isinstance(f.node, ast.Lambda)]
    rets = [n for n in own_nodes(gi.node) if isinstance(n, ast.Return)]
    def deferred(r, nested_names):
        """a nested function, a lambda, or functools.partial over a function / bound method: called later, not now"""
        v = r.value
        if isinstance(v, ast.Name) and v.id in nested_names:
            return True
        if isinstance(v, ast.Lambda):
            return True
        if isinstance(v, ast.Call) and ctx.res.external_name(v) == 'functools.partial' and v.args and \
                isinstance(v.args[0], (ast.Name, ast.Attribute)):
            return True
        return False
    ok = bool(rets) and all(deferred(r, [f.name for f in nested]) for r in rets)
    run.check(ok, rule, gi.where, gi.qualname, 'return func', 'get_iterator does not return a deferred function')
    for f in (pr, gi):
        for n in own_nodes(f.node):
            bad = None
            if isinstance(n, (ast.For, ast.While)):
                bad = n
            if isinstance(n, ast.Call) and isinstance(n.func, ast.Name) and n.func.id in ('list', 'next', 'tuple', 'sorted') \
                    and n.args and ('res_iter' in u(n.args[0]) or 'datastream' in u(n.args[0])):
                bad = n
            if isinstance(n, (ast.ListComp, ast.SetComp, ast.DictComp)) and 'res_iter' in u(n.generators[0].iter):
                bad = n
            if bad is not None:
                run.fail(rule, where(ctx.repo, bad), f.qualname, u(bad).split('\n')[0],
                         'upstream streams are iterated while the chain is being built (before the consumer starts)')
    # every overriding get_iterator (finalizer) also returns a deferred function
    for c in ctx.res.subclasses(dsp, strict=True):
        g = c.methods.get('get_iterator')
        if g is None:
            continue
        nested = [f.name for f in ctx.repo.functions.values() if f.parent is g]
        rets = [n for n in own_nodes(g.node) if isinstance(n, ast.Return)]
        run.check(bool(rets) and all(deferred(r, nested) for r in rets), rule, g.where,
                  g.qualname, 'return func', 'overriding get_iterator does not return a deferred function')
        loops = [n for n in own_nodes(g.node) if isinstance(n, (ast.For, ast.While))]
        run.check(not loops, rule, g.where, g.qualname, 'no loop outside the deferred function',
                  'overriding get_iterator iterates eagerly')


def r13_no_pull_after_handover(ctx, rule='R13h'):
    """A stream a step has handed downstream (yield s / yield wrap(s)) belongs to the consumer: the step itself must not read it
    afterwards.  Draining it `to make the output complete` pulls the whole rest of the source with nothing delivered as soon as a
    later step stops early, so rows pulled minus rows delivered is no longer bounded by the sample (and an unbounded source never
    ends)."""
    from sa.model import is_drain_call
    run = ctx.run
    run.rule(rule, 'NO-PULL-AFTER-HANDOVER: in every generator of a non-buffering module, a stream that was yielded downstream (as '
                   'itself or wrapped) is not drained, materialised or iterated by the step in the statements that follow the yield: '
                   'how far a stream is read is decided by its consumer alone')
    n = 0
    for fi in sorted(ctx.repo.functions.values(), key=lambda f: f.qualname):
        if isinstance(fi.node, ast.Lambda) or not fi.is_generator or fi.module.name in OUT_OF_SCOPE_MODULES or \
                fi.module.name.startswith('dataflows.processors.parsers'):
            continue
        blocks = []
        for nd in [fi.node] + list(own_nodes(fi.node)):
            for f_ in ('body', 'orelse', 'finalbody'):
                b = getattr(nd, f_, None)
                if isinstance(b, list) and b and isinstance(b[0], ast.stmt):
                    blocks.append(b)
            if isinstance(nd, ast.Try):
                for h in nd.handlers:
                    blocks.append(h.body)
        for b in blocks:
            for i, st in enumerate(b):
                if not (isinstance(st, ast.Expr) and isinstance(st.value, ast.Yield) and st.value.value is not None):
                    continue
                v = st.value.value
                handed = set()
                if isinstance(v, ast.Name):
                    handed.add(v.id)
                elif isinstance(v, ast.Call):
                    handed |= {a.id for a in list(v.args) + [k.value for k in v.keywords] if isinstance(a, ast.Name)}
                elif isinstance(v, ast.GeneratorExp):
                    handed |= {g.iter.id for g in v.generators if isinstance(g.iter, ast.Name)}     # yield (row for row in rows)
                if not handed:
                    continue
                # a name that holds the wrapper of a handed stream is the same stream: w = wrap(s); yield w
                for prev in b[:i]:
                    if isinstance(prev, ast.Assign) and len(prev.targets) == 1 and isinstance(prev.targets[0], ast.Name) and \
                            prev.targets[0].id in handed and isinstance(prev.value, ast.Call):
                        handed |= {a.id for a in prev.value.args if isinstance(a, ast.Name)}
                n += 1
                bad = None
                for later in b[i + 1:]:
                    if any(isinstance(t, ast.Name) and t.id in handed for a in ast.walk(later) if isinstance(a, (ast.Assign, ast.AugAssign))
                           for t in (a.targets if isinstance(a, ast.Assign) else [a.target])):
                        break           # rebound: a different object from here on
                    for x in ast.walk(later):
                        if isinstance(x, (ast.FunctionDef, ast.Lambda)):
                            continue
                        if isinstance(x, ast.Call) and x.args and isinstance(x.args[0], ast.Name) and x.args[0].id in handed and \
                                (is_drain_call(ctx.res, x) or ctx.res.external_name(x) in MATERIALISERS or
                                 ctx.res.external_name(x) in ('collections.deque', 'builtins.next')):
                            bad = x
                        if isinstance(x, (ast.For, ast.comprehension)) and isinstance(x.iter, ast.Name) and x.iter.id in handed:
                            bad = x.iter
                        if isinstance(x, ast.YieldFrom) and isinstance(x.value, ast.Name) and x.value.id in handed:
                            bad = x
                    if bad is not None:
                        break
                if bad is None:
                    run.ok(rule, where(ctx.repo, st), '%s: %s' % (fi.qualname, u(st)[:80]), 'not read again by the step')
                else:
                    run.fail(rule, where(ctx.repo, bad), fi.qualname, 'read after hand-over: %s' % u(bad)[:80],
                             'the step reads a stream it has already yielded downstream (%s): when a later step stops early the '
                             'whole rest of the source is pulled with nothing delivered - look-ahead grows with the data'
                             % ', '.join(sorted(handed)))
    return n


# ---------------------------------------------------------------------- R13q queues between a reader and the consumer are bounded

_QUEUE_CTORS = {'queue.Queue': 'maxsize', 'queue.LifoQueue': 'maxsize', 'queue.PriorityQueue': 'maxsize', 'queue.SimpleQueue': None,
                'multiprocessing.Queue': 'maxsize', 'multiprocessing.queues.Queue': 'maxsize', 'asyncio.Queue': 'maxsize'}

_R13Q_CONTROL = '''
import queue
class loader:
    DEPTH = 1000
    def ahead(self, it):
        q = queue.Queue(maxsize=min(self.DEPTH, self.limit or 0))
        return q
    def bounded(self, it):
        q = queue.Queue(maxsize=max(1, min(self.DEPTH, 500)))
        return q
'''


def _provably_positive(e, consts, depth=0):
    """Is the integer expression >= 1 whatever the unknowns are?  Constants, class / module constants, min() of positives, max() with
    one positive, sums of positives and non-negatives are decided; anything else is not provable."""
    if depth > 6:
        return False
    if isinstance(e, ast.Constant):
        return isinstance(e.value, int) and not isinstance(e.value, bool) and e.value >= 1
    if isinstance(e, ast.Name) and e.id in consts:
        return _provably_positive(consts[e.id], consts, depth + 1)
    if isinstance(e, ast.Attribute) and isinstance(e.value, ast.Name) and e.value.id in ('self', 'cls') and e.attr in consts:
        return _provably_positive(consts[e.attr], consts, depth + 1)
    if isinstance(e, ast.Call) and isinstance(e.func, ast.Name) and e.func.id == 'min' and e.args and not e.keywords:
        return all(_provably_positive(a, consts, depth + 1) for a in e.args)
    if isinstance(e, ast.Call) and isinstance(e.func, ast.Name) and e.func.id == 'max' and e.args and not e.keywords:
        return any(_provably_positive(a, consts, depth + 1) for a in e.args)
    if isinstance(e, ast.BinOp) and isinstance(e.op, (ast.Add, ast.Mult)):
        return _provably_positive(e.left, consts, depth + 1) and _provably_positive(e.right, consts, depth + 1)
    if isinstance(e, ast.BoolOp) and isinstance(e.op, ast.Or):
        return _provably_positive(e.values[-1], consts, depth + 1) and all(True for _ in e.values)   # `x or 5`: 5 if x is falsy; x else
    return False


def _unbounded_queues(tree, external_name):
    consts = {}
    for n in ast.walk(tree):
        if isinstance(n, ast.Assign) and len(n.targets) == 1 and isinstance(n.targets[0], ast.Name) and \
                getattr(n, '_parent', None) is not None and isinstance(n._parent, (ast.Module, ast.ClassDef)):
            consts[n.targets[0].id] = n.value
    out = []
    for c in ast.walk(tree):
        if not isinstance(c, ast.Call):
            continue
        en = external_name(c)
        if en not in _QUEUE_CTORS:
            continue
        kw = _QUEUE_CTORS[en]
        bound = None
        if kw is not None:
            bound = c.args[0] if c.args else next((k.value for k in c.keywords if k.arg == kw), None)
        if bound is None or not _provably_positive(bound, consts):
            out.append((c, en, bound))
    return out


def r13_bounded_queues(ctx, files, rule='R13q'):
    """A queue between a thread that reads the source and the generator that hands the rows on is the look-ahead of the pipeline:
    its capacity must be a positive constant whatever the options are (maxsize=0 - and a missing maxsize - mean unbounded)."""
    run = ctx.run
    run.rule(rule, 'BOUNDED-QUEUES: in the modules of row-wise steps every queue that is created has a capacity that is provably >= 1 '
                   '(maxsize 0 or absent is an unbounded queue: a reader thread then runs through the whole source ahead of the consumer)')
    from sa.loader import set_parents
    ctl = ast.parse(_R13Q_CONTROL)
    set_parents(ctl)

    def ctl_name(c):
        return ast.unparse(c.func) if isinstance(c.func, ast.Attribute) else None
    got = [ast.unparse(b) if b is not None else None for _c, _e, b in _unbounded_queues(ctl, ctl_name)]
    if got != ['min(self.DEPTH, self.limit or 0)']:
        raise AnalysisError('R13q self-check failed: %s' % got)
    n = 0
    for m in ctx.repo.modules.values():
        if m.relpath not in files:
            continue
        n += 1
        bad = _unbounded_queues(m.tree, ctx.res.external_name)
        for c, en, b in bad:
            run.fail(rule, where(ctx.repo, c), fq(ctx.repo, c), '%s(%s)' % (en, u(b) if b is not None else ''),
                     'a queue of unbounded (or not provably bounded) capacity in a row-wise step: whoever fills it reads the source as '
                     'fast as it can, however slowly the rows are taken at the end of the pipeline - look-ahead grows with the data')
        if not bad:
            run.ok(rule, m.relpath, m.name, 'no queue, or only queues of provably positive capacity')
    return n


def sample_rechained(ctx, rule='SMP'):
    """The in-memory source reads ahead to infer a schema and must hand every row it has read on: in iterable_storage the iterable is
    consumed in one place only - a bounded slice collected into the sample - and the sample is chained back in front of the rest.  A
    loop that pulls rows one by one and decides afterwards whether to keep them loses the row it stops on."""
    run, repo = ctx.run, ctx.repo
    run.rule(rule, 'SAMPLE-RECHAINED: iterable_storage reads self.iterable only as list(itertools.islice(self.iterable, <bound>)) into the '
                   'sample and as itertools.chain(<sample>, self.iterable) stored back; no loop, next() or other consumer of it')
    cls = repo.cls('dataflows.helpers.iterable_loader:iterable_storage')
    n = 0
    for m in cls.methods.values():
        if isinstance(m.node, ast.Lambda):
            continue
        mn = ctx.N(m)
        for x in ast.walk(mn.node):
            if not (isinstance(x, ast.Attribute) and isinstance(x.ctx, ast.Load) and pseudo(x) == 'self.iterable'):
                continue
            par = getattr(x, '_parent', None)
            n += 1
            ok = False
            why = u(par)[:80] if par is not None else ''
            if isinstance(par, ast.Call) and u(par.func) in ('itertools.islice', 'islice') and par.args and par.args[0] is x:
                gp = getattr(par, '_parent', None)
                ok = isinstance(gp, ast.Call) and u(gp.func) == 'list' and len(par.args) == 2
            elif isinstance(par, ast.Call) and u(par.func) in ('itertools.chain', 'chain') and len(par.args) == 2 and par.args[1] is x:
                gp = getattr(par, '_parent', None)
                ok = isinstance(gp, ast.Assign) and pseudo(gp.targets[0]) == 'self.iterable'
            elif isinstance(par, ast.Return):
                ok = True            # iter(): the stream is handed out
            run.check(ok, rule, where(repo, x), m.qualname, 'self.iterable read as bounded slice / chained back / returned',
                      'rows are pulled from the source outside the bounded sample (%s): a row that is read and not put into the sample '
                      'that is chained back is lost from the resource' % why)
    run.floor(rule, n, 3, 'reads of self.iterable')
    return n
