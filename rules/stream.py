"""R6 STREAM-SIGNATURE, R7 GUARD-DOMINANCE, R26 APPEND-ORDER, R27 NAME-UNIQUENESS."""
import ast
import itertools

from sa.deps import Facts, base_name, names_in, pseudo
from sa.loader import AnalysisError, ClassInfo, FuncInfo, own_nodes
from sa.model import (Atomizer, alpha_text, IterSig, ResLoop, StepPhases, _const, classify_yield, descriptor_aliases,
                      find_resloops, flushed_lists, fq, is_drain_call, matcher_names, package_steps,
                      processor_classes, resloop_signature, u, where)
from sa.paths import (BREAK, CONTINUE, FALL, RAISE, RETURN, Enumerator, calls_in, eval_order, item_nodes,
                      path_nodes)
from rules.framework import _is_pkg_yield, descriptor_writes

# steps whose descriptor/stream count agreement is *not* modelled, with the reason (DESIGN §5 C02.1)
COUNT_UNMODELLED = {
    'dataflows.processors.concatenate:concatenate':      # keyed by the public factory: the inner step's name is private
        'run detection is a prefix/suffix state machine plus islice(it, n-1); only consumption and pass-through are checked',
}


def is_source_step(ctx, fi):
    """A package step that replaces the upstream package (first yield is a fresh Package(...)): unstream."""
    for n in own_nodes(fi.node):
        if isinstance(n, ast.Yield) and n.value is not None and isinstance(n.value, ast.Call) and \
                ctx.res.external_name(n.value) in ('datapackage.Package', 'datapackage.package.Package'):
            return True
    return False


def step_resloops(ctx, fi):
    return find_resloops(ctx.repo, ctx.res, fi, ['package'])


def fmt_atoms(atoms):
    return ','.join(('' if p else '!') + '/'.join(str(x) for x in a) for a, p in sorted(atoms.items())) or '<always>'


# ---------------------------------------------------------------------- R6 (a) consumption and (c) identity

def _uses_stream(node, names):
    """Does `node` (a statement / expression) consume one of the stream names: for-loop / enumerate over it, yield from it,
    drain, or passing it as an argument to some call (delegation, checked separately)?"""
    for n in ast.walk(node):
        if isinstance(n, (ast.For, ast.AsyncFor)):
            it = n.iter
            if isinstance(it, ast.Call) and isinstance(it.func, ast.Name) and it.func.id in ('enumerate', 'iter', 'zip') and it.args:
                if any(pseudo(a) in names for a in it.args):
                    return True
            if pseudo(it) in names:
                return True
        elif isinstance(n, ast.comprehension):
            it = n.iter
            if isinstance(it, ast.Call) and isinstance(it.func, ast.Name) and it.func.id in ('enumerate', 'iter', 'zip') and it.args:
                it = it.args[0]
            if pseudo(it) in names:
                return True
        elif isinstance(n, ast.YieldFrom) and pseudo(n.value) in names:
            return True
        elif isinstance(n, ast.Call) and any(pseudo(a) in names for a in list(n.args) + [k.value for k in n.keywords]):
            return True
        elif isinstance(n, ast.Return) and n.value is not None and pseudo(n.value) in names:
            return True
    return False


def wrapper_consumes(ctx, fi, param, depth=0):
    """Every normally terminating path through a row wrapper consumes its stream parameter completely: it loops over it
    (without break / return inside that loop), yields from it, drains it, returns it, or hands it to a callee that does.
    -> list of offending path descriptions (empty = ok)"""
    problems = []
    if isinstance(fi.node, ast.Lambda):
        return problems
    names = {param}
    for n in own_nodes(fi.node):
        if isinstance(n, ast.Assign) and len(n.targets) == 1 and isinstance(n.targets[0], ast.Name):
            v = n.value
            if isinstance(v, ast.Call) and any(pseudo(a) in names for a in v.args):
                names.add(n.targets[0].id)
            elif pseudo(v) in names:
                names.add(n.targets[0].id)
    en = Enumerator(where=fi.qualname, relevant=lambda x: _uses_stream(x, names) if isinstance(x, (ast.stmt, ast.expr)) else False)
    for p in en.paths(fi.node.body):
        if p.term == RAISE:
            continue
        used = False
        for it in p.items:
            if it.kind in ('stmt', 'loop', 'loop_exit', 'opaque_if', 'return', 'assert', 'with', 'guard'):
                node = it.node if it.kind != 'with' else it.node.context_expr
                if it.kind == 'guard':
                    continue
                if _uses_stream(node, names):
                    used = True
                    if it.kind == 'loop_exit':
                        problems.append('leaves the loop over the stream early: ' + ' ; '.join(p.describe())[:300])
        if not used:
            problems.append('ends without reading the stream: ' + ' ; '.join(p.describe())[:300])
    # early exits inside the loop over the stream
    for lp in own_nodes(fi.node):
        if isinstance(lp, (ast.For,)):
            it = lp.iter
            if isinstance(it, ast.Call) and isinstance(it.func, ast.Name) and it.func.id == 'enumerate' and it.args:
                it = it.args[0]
            if pseudo(it) in names:
                for x in ast.walk(lp):
                    if isinstance(x, ast.Break):
                        # a break belonging to a nested loop is fine
                        q = x
                        while not isinstance(q, (ast.For, ast.While)):
                            q = q._parent
                        if q is lp:
                            problems.append('break inside the loop over the upstream stream (line %d)' % x.lineno)
    return problems


def r6_consumption(ctx, steps=None, rule='R6a'):
    run = ctx.run
    run.rule(rule, 'STREAM-SIGNATURE(a): in the stream phase of every step each upstream resource is, on every path of '
                   'the resource loop, yielded, wrapped-and-yielded or drained (collections.deque(x, maxlen=0)); the loop '
                   'has no early exit. A resource that is merely skipped starves the steps and observers upstream of it.')
    steps = steps if steps is not None else package_steps(ctx.repo)
    n = 0
    seen_wrappers = set()
    for fi in steps:
        if is_source_step(ctx, fi):
            run.ok(rule, fi.where, fi.qualname, 'source step (replaces upstream package), nothing to consume')
            continue
        loops = step_resloops(ctx, fi)
        if not loops:
            run.fail(rule, fi.where, fi.qualname, 'no resource loop',
                     'the step never iterates or passes through the upstream resource streams')
            continue
        for rl in loops:
            n += 1
            if rl.kind == 'passthrough':
                run.ok(rule, where(ctx.repo, rl.node), 'yield from <upstream> in ' + rl.fi.qualname, 'passthrough')
                continue
            sigs, at = resloop_signature(ctx.repo, ctx.res, rl)
            for s in sigs:
                consumed = bool(s.drains) or any(k in ('identity', 'unwrap', 'wrap') for k, _ in s.yields)
                okterm = s.term in (FALL, CONTINUE) or s.term == RAISE
                if s.term == RAISE:
                    run.ok(rule, where(ctx.repo, rl.node), rl.fi.qualname + ' ' + fmt_atoms(s.atoms), 'raises')
                    continue
                run.check(consumed and okterm, rule, where(ctx.repo, rl.node), rl.fi.qualname, fmt_atoms(s.atoms),
                          'upstream resource is neither yielded nor drained on this path (term=%s): everything '
                          'upstream of this step sees an incomplete stream' % s.term,
                          detail=s.describe(), path=s.path.describe())
                # delegation: the wrapper / indexer the resource is handed to must itself read it on every path
                calls = [y.value for k, y in s.yields if k == 'wrap' and isinstance(y.value, ast.Call)]
                calls += [d.args[0] for d in s.drains if d.args and isinstance(d.args[0], ast.Call)]
                for c in calls:
                    idx = [i for i, a in enumerate(c.args) if pseudo(a) == rl.var]
                    if not idx:
                        continue
                    for t in ctx.res.resolve_call(c):
                        if isinstance(t, FuncInfo) and not isinstance(t.node, ast.Lambda):
                            ps = [p for p in t.params if p not in ('self', 'cls')]
                            # a callee reached through functools.partial(f, a1..ak): the first k parameters are taken
                            try:
                                pc = ctx.res.partial_of(c.func, rl.fi.module, rl.fi)
                            except Exception:
                                pc = None
                            if pc is not None:
                                ps = ps[len(pc.args) - 1:]
                            if idx[0] < len(ps):
                                key = (t.qualname, ps[idx[0]])
                                if key in seen_wrappers:
                                    continue
                                seen_wrappers.add(key)
                                probs = wrapper_consumes(ctx, t, ps[idx[0]])
                                run.check(not probs, rule, t.where, t.qualname, 'wrapper reads %s on every path' % ps[idx[0]],
                                          'the wrapper a resource is handed to does not read it completely on every path, so '
                                          'steps and observers upstream see an incomplete stream: ' + '; '.join(probs)[:400])
    return n


def r6_identity(ctx, steps=None, rule='R6c'):
    run = ctx.run
    run.rule(rule, 'STREAM-SIGNATURE(c): on every path of the resource loop where the selector does not match (MATCH false, '
                   'or every name-equality atom false) the resource is yielded exactly once, as the very same object')
    steps = steps if steps is not None else package_steps(ctx.repo)
    n = 0
    for fi in steps:
        if is_source_step(ctx, fi):
            continue
        for rl in step_resloops(ctx, fi):
            if rl.kind != 'for':
                continue
            sigs, at = resloop_signature(ctx.repo, ctx.res, rl)
            sel_atoms = set()
            for s in sigs:
                for a in s.atoms:
                    if a[0] in ('MATCH', 'EQ', 'IN'):
                        sel_atoms.add(a)
            if not sel_atoms:
                continue
            found_unmatched = False
            for s in sigs:
                present = [a for a in s.atoms if a in sel_atoms]
                if not present or any(s.atoms[a] for a in present):
                    continue
                # unmatched only if *all* selection atoms known on this path are false and none is missing that could be true
                found_unmatched = True
                n += 1
                kinds = [k for k, _ in s.yields]
                run.check(kinds == ['identity'] and not s.drains and not s.defers and s.term in (FALL, CONTINUE),
                          rule, where(ctx.repo, rl.node), rl.fi.qualname, fmt_atoms(s.atoms),
                          'a resource the step does not select must pass through unchanged (exactly one identity '
                          'yield); found %s' % s.describe(), detail=s.describe(), path=s.path.describe())
            run.check(found_unmatched, rule, where(ctx.repo, rl.node), rl.fi.qualname, 'unmatched path exists',
                      'no path of the resource loop handles resources the selector does not match')
    return n



def r6_matcher_asked(ctx, fns, rule='R6c'):
    """A step that builds a matcher and does more to a resource stream than hand it on must ask the matcher in the stream phase
    too: deciding by some other recorded state (what the package phase stored for a name, a cache from an earlier run, whether a
    per-resource list happens to be empty) selects differently from the selector as soon as that state and the selector disagree."""
    run = ctx.run
    n6 = 0
    for f in fns:
        seeds = ['package'] if f.name != 'process_resources' else [f.params[1]]
        for rl in find_resloops(ctx.repo, ctx.res, f, seeds):
            if rl.kind != 'for' or rl.fi is not f:     # a loop reached through super() belongs to the rows-level clause
                continue
            sigs, at = resloop_signature(ctx.repo, ctx.res, rl)
            if any(a[0] in ('MATCH', 'EQ', 'IN') for s in sigs for a in s.atoms):
                run.ok(rule, where(ctx.repo, rl.node), rl.fi.qualname + ' stream phase asks the matcher')
                n6 += 1
                continue
            plain = all([k for k, _ in s.yields] == ['identity'] and not s.drains and not s.defers for s in sigs if s.term != 'raise')
            run.check(plain, rule, where(ctx.repo, rl.node), rl.fi.qualname, 'stream phase asks the matcher',
                      'the step builds a ResourceMatcher but its resource loop wraps / drops / replaces resources without asking it: '
                      'which resources are touched is decided by something other than the selector')
            n6 += 1
    return n6


def _identity_rows_callee(ctx, call, param, cls):
    """Is `call` = super().process_resource(param) resolving to a base implementation that re-yields every row through an
    un-overridden identity process_row?"""
    if not (isinstance(call, ast.Call) and call.args and isinstance(call.args[0], ast.Name) and call.args[0].id == param):
        return False
    tg = [t for t in ctx.res.resolve_call(call) if isinstance(t, FuncInfo)]
    if len(tg) != 1 or tg[0].name != 'process_resource':
        return False
    base = tg[0]
    from sa.model import row_loops, rowloop_signature
    rls = row_loops(base)
    if len(rls) != 1:
        return False
    loop, var, src = rls[0]
    sigs = rowloop_signature(base, loop, var)
    for s_ in sigs:
        if len(s_.yields) != 1:
            return False
        y = s_.yields[0][1]
        v = y.value
        if isinstance(v, ast.Name) and v.id == var:
            continue
        if isinstance(v, ast.Call) and isinstance(v.func, ast.Attribute) and v.func.attr == 'process_row' and \
                v.args and isinstance(v.args[0], ast.Name) and v.args[0].id == var:
            pr = ctx.res.lookup_method(cls, 'process_row') if cls is not None else None
            if pr is None:
                return False
            rets = [n for n in own_nodes(pr.node) if isinstance(n, ast.Return)]
            if not (len(rets) == 1 and isinstance(rets[0].value, ast.Name) and rets[0].value.id == pr.params[1]
                    and len(pr.node.body) == 1):
                return False
            continue
        return False
    return True


def r6_identity_rows(ctx, funcs, rule='R6c'):
    """Rows-level steps (one resource in, rows out): on every path where the selector does not match, the function yields
    exactly `yield from <the resource>` (or the base class pass-through) and nothing else."""
    run = ctx.run
    n = 0
    for fi, param in funcs:
        at = Atomizer(ctx.repo, ctx.res, fi, param, 'stream', scope_node=fi.node)
        en = Enumerator(where=fi.qualname, relevant=lambda x: isinstance(x, (ast.Yield, ast.YieldFrom)))
        cls = ctx.repo.enclosing_class(fi.node)
        found = False
        for p in en.paths(fi.node.body):
            val = at.path_atoms(p)
            if val is None or val.get(('MATCH',)) is not False:
                continue
            found = True
            n += 1
            ys = [x for x in path_nodes(p, into_loops=True) if isinstance(x, (ast.Yield, ast.YieldFrom))]
            ok = len(ys) == 1 and isinstance(ys[0], ast.YieldFrom) and (
                (isinstance(ys[0].value, ast.Name) and ys[0].value.id == param) or
                _identity_rows_callee(ctx, ys[0].value, param, cls))
            stores = [x for x in path_nodes(p, into_loops=True)
                      if isinstance(x, (ast.Assign, ast.AugAssign)) and
                      any(isinstance(t, (ast.Subscript, ast.Attribute)) and base_name(t) == param
                          for t in (x.targets if isinstance(x, ast.Assign) else [x.target]))]
            run.check(ok and not stores and p.term in (FALL, RETURN), rule, where(ctx.repo, ys[0]) if ys else fi.where,
                      fi.qualname, fmt_atoms(val),
                      'rows of a resource the step does not select must pass through unchanged '
                      '(`yield from %s` only); found %s' % (param, [u(y) for y in ys]), path=p.describe())
        run.check(found, rule, fi.where, fi.qualname, 'unmatched path exists',
                  'no path handles resources the selector does not match')
    return n


# ---------------------------------------------------------------------- R6 (b) count agreement

def _resources_subscript(node):
    """x['resources'] store target?"""
    return isinstance(node, ast.Subscript) and _const(node.slice) == 'resources'


def once_bound(fnode, e, depth=0):
    """A plain local that is bound exactly once in the function stands for the expression it was bound to
    (resources = dp.descriptor.setdefault('resources', []); upstream = super().process_resources(resources))."""
    if depth > 3 or not isinstance(e, ast.Name):
        return e
    vals = [a.value for a in ast.walk(fnode) if isinstance(a, ast.Assign) and len(a.targets) == 1
            and isinstance(a.targets[0], ast.Name) and a.targets[0].id == e.id]
    others = [1 for a in ast.walk(fnode) if (isinstance(a, (ast.For, ast.comprehension)) and e.id in {n.id for n in ast.walk(a.target)
                                                                                                  if isinstance(n, ast.Name)})
              or (isinstance(a, ast.AugAssign) and isinstance(a.target, ast.Name) and a.target.id == e.id)]
    if len(vals) == 1 and not others:
        return once_bound(fnode, vals[0], depth + 1)
    return e


def subst_once(fnode, expr):
    """expr with every plain local that is bound exactly once in the function (and is not a loop / with / augmented target) replaced by
    what it was bound to - for matching against a spelling without temporaries."""
    from sa.astcopy import clone

    class S(ast.NodeTransformer):
        def visit_Name(self, n):
            if isinstance(n.ctx, ast.Load):
                v = once_bound(fnode, n)
                if v is not n:
                    return ast.copy_location(clone(v), n)
            return n
    out = S().visit(clone(expr))
    ast.fix_missing_locations(out)
    return out


def _is_resources_expr(e):
    """<something>['resources'] / .get('resources', ..) / .resources"""
    if isinstance(e, ast.Subscript) and _const(e.slice) == 'resources':
        return True
    if isinstance(e, ast.Call) and isinstance(e.func, ast.Attribute) and e.func.attr in ('get', 'pop', 'setdefault') \
            and e.args and _const(e.args[0]) == 'resources':
        return True
    if isinstance(e, ast.Attribute) and e.attr == 'resources':
        return True
    return False


def _local_funcs(ctx, fi):
    """fi plus sibling / nested local functions it can call (same factory)."""
    out = [fi]
    parent = fi.parent if isinstance(fi.parent, FuncInfo) else None
    for f in ctx.repo.functions.values():
        if f is fi or isinstance(f.node, ast.Lambda) or f.qualname == fi.qualname:      # (fi may be a normalised view of f)
            continue
        if f.parent is fi or (parent is not None and f.parent is parent):
            out.append(f)
    return out


def descr_signature(ctx, fi):
    """How the package phase rebuilds the resource list:
    ('unchanged',) | ('sig', [(atoms, now, deferred)], post_now) | ('unmodelled', reason)"""
    cands = []
    for f in _local_funcs(ctx, fi):
        for n in own_nodes(f.node):
            if isinstance(n, ast.Assign) and any(_resources_subscript(t) for t in n.targets):
                cands.append((f, n))
            elif isinstance(n, ast.Call) and isinstance(n.func, ast.Attribute) and \
                    n.func.attr in ('append', 'extend', 'insert', 'remove', 'pop') and _is_resources_expr(n.func.value):
                cands.append((f, n))
            elif isinstance(n, ast.Delete) and any(isinstance(t, ast.Subscript) and _is_resources_expr(t.value)
                                                   for t in n.targets):
                cands.append((f, n))
    if not cands:
        return ('unchanged',)
    if len(cands) > 1:
        return ('unmodelled', 'several statements rebuild the resource list: ' + '; '.join(u(n) for _, n in cands))
    f, n = cands[0]
    if not isinstance(n, ast.Assign):
        return ('unmodelled', 'in-place edit of the resource list: ' + u(n))
    v = n.value
    # Case 1: comprehension filter
    if isinstance(v, ast.ListComp) and len(v.generators) == 1 and _is_resources_expr(v.generators[0].iter) \
            and isinstance(v.generators[0].target, ast.Name) and isinstance(v.elt, ast.Name) \
            and v.elt.id == v.generators[0].target.id:
        var = v.generators[0].target.id
        at = Atomizer(ctx.repo, ctx.res, f, var, 'descr', scope_node=f.node)
        pos = {}
        contradictory = False
        for cond in v.generators[0].ifs:
            for a, p in at.atoms(cond, True):
                if a in pos and pos[a] != p:
                    contradictory = True
                pos[a] = p
        if contradictory:
            return ('unmodelled', 'contradictory comprehension filter')
        if not pos:
            return ('sig', [({}, 1, 0)], 0, f, n)
        sig = [(dict(pos), 1, 0)]
        # complement valuations: any atom flipped -> 0
        for a in pos:
            neg = {a: not pos[a]}
            sig.append((neg, 0, 0))
        return ('sig', sig, 0, f, n)
    # Case 2: new list built by a loop with append
    if isinstance(v, ast.Name):
        lst = v.id
        loops = [x for x in own_nodes(f.node) if isinstance(x, ast.For) and _is_resources_expr(once_bound(f.node, x.iter))
                 and isinstance(x.target, ast.Name)
                 and any(isinstance(c, ast.Call) and isinstance(c.func, ast.Attribute) and c.func.attr == 'append'
                         and isinstance(c.func.value, ast.Name) and c.func.value.id == lst for c in ast.walk(x))]
        if len(loops) != 1:
            return ('unmodelled', 'list %s is not built by exactly one loop over the resources' % lst)
        loop = loops[0]
        at = Atomizer(ctx.repo, ctx.res, f, loop.target.id, 'descr', scope_node=loop)
        sig = []
        for p in Enumerator(where=f.qualname).body_paths(loop):
            val = at.path_atoms(p)
            if val is None or p.term == RAISE:
                continue
            cnt = 0
            for x in path_nodes(p, into_loops=True):
                if isinstance(x, ast.Call) and isinstance(x.func, ast.Attribute) and x.func.attr == 'append' \
                        and isinstance(x.func.value, ast.Name) and x.func.value.id == lst:
                    cnt += 1
            sig.append((val, cnt, 0))
        # appends after the loop
        post = 0
        body = loop._parent.body if hasattr(loop._parent, 'body') and loop in loop._parent.body else []
        for st in body[body.index(loop) + 1:] if body else []:
            for x in ast.walk(st):
                if isinstance(x, ast.Call) and isinstance(x.func, ast.Attribute) and x.func.attr == 'append' \
                        and isinstance(x.func.value, ast.Name) and x.func.value.id == lst:
                    post += 1
        return ('sig', sig, post, f, n)
    # Case 3: list(generator(resources))
    if isinstance(v, ast.Call) and isinstance(v.func, ast.Name) and v.func.id == 'list' and v.args \
            and isinstance(v.args[0], ast.Call) and v.args[0].args and _is_resources_expr(v.args[0].args[0]):
        tg = [t for t in ctx.res.resolve_call(v.args[0]) if isinstance(t, FuncInfo)]
        if len(tg) != 1:
            return ('unmodelled', 'generator %s not resolved' % u(v.args[0].func))
        g = tg[0]
        loops = [x for x in own_nodes(g.node) if isinstance(x, ast.For) and isinstance(x.iter, ast.Name)
                 and x.iter.id == g.params[0] and isinstance(x.target, ast.Name)]
        if len(loops) != 1:
            return ('unmodelled', 'generator %s has no single loop over its parameter' % g.qualname)
        loop = loops[0]
        at = Atomizer(ctx.repo, ctx.res, g, loop.target.id, 'descr', scope_node=loop)
        flushed = flushed_lists(g, loop)
        sig = []
        for p in Enumerator(where=g.qualname).body_paths(loop):
            val = at.path_atoms(p)
            if val is None or p.term == RAISE:
                continue
            now = deferred = 0
            for x in path_nodes(p, into_loops=True):
                if isinstance(x, ast.Yield):
                    now += 1
                elif isinstance(x, ast.Call) and isinstance(x.func, ast.Attribute) and x.func.attr == 'append' \
                        and isinstance(x.func.value, ast.Name) and x.func.value.id in flushed:
                    deferred += 1
            sig.append((val, now, deferred))
        # a generator that lives at module level names its configuration by its own parameters: an atom over such a parameter is the
        # atom over the argument it was called with (source -> source_)
        call_ = v.args[0]
        bound_ = dict(zip(g.params, call_.args))
        bound_.update({k.arg: k.value for k in call_.keywords if k.arg})
        ren = {p_: pseudo(a_) for p_, a_ in bound_.items() if pseudo(a_) and pseudo(a_) != p_}
        if ren:
            sig = [({((a[0], ren.get(a[1], a[1])) + tuple(a[2:]) if len(a) > 1 else a): pol for a, pol in val.items()}, now, deferred)
                   for val, now, deferred in sig]
        return ('sig', sig, 0, g, n)
    return ('unmodelled', 'unrecognised rebuild of the resource list: ' + u(n))


def _consistent(val, atoms):
    return all(val.get(a, p) == p for a, p in atoms.items())


def r6_count_agreement(ctx, steps=None, rule='R6b'):
    run = ctx.run
    run.rule(rule, 'STREAM-SIGNATURE(b): for every valuation of the guard atoms (MATCH, EQ(name), FLAG(option)) the number '
                   'of streams a step yields per upstream resource (immediately / deferred to the end) equals the number '
                   'of descriptors its package phase emits for that resource; steps that leave the resource list alone '
                   'yield exactly one stream per resource and none after the loop')
    steps = steps if steps is not None else package_steps(ctx.repo)
    n = 0
    for fi in steps:
        if is_source_step(ctx, fi):
            continue
        from sa.model import toplevel_qualname
        if toplevel_qualname(fi) in COUNT_UNMODELLED:
            run.note('%s: %s' % (fi.qualname, COUNT_UNMODELLED[toplevel_qualname(fi)]))
            continue
        ds = descr_signature(ctx, fi)
        loops = [rl for rl in step_resloops(ctx, fi) if rl.kind == 'for']
        if ds[0] == 'unmodelled':
            raise AnalysisError('%s: %s' % (fi.qualname, ds[1]))
        if not loops:
            if ds[0] == 'unchanged':
                run.ok(rule, fi.where, fi.qualname, 'pass-through step, resource list unchanged')
                n += 1
                continue
            raise AnalysisError('%s changes the resource list but has no resource loop to compare with' % fi.qualname)
        if len(loops) != 1:
            raise AnalysisError('%s: %d resource loops' % (fi.qualname, len(loops)))
        rl = loops[0]
        sigs, at = resloop_signature(ctx.repo, ctx.res, rl)
        # streams yielded after the loop (other than the DEFER flush) in the same function
        flushed = flushed_lists(rl.fi, rl.node)
        parent_body = getattr(rl.node._parent, 'body', [])
        post_yields = 0
        if rl.node in parent_body:
            for st in parent_body[parent_body.index(rl.node) + 1:]:
                if isinstance(st, ast.For) and isinstance(st.iter, ast.Name) and st.iter.id in flushed:
                    continue
                post_yields += sum(1 for x in ast.walk(st) if isinstance(x, (ast.Yield, ast.YieldFrom)))
        if ds[0] == 'unchanged':
            for s in sigs:
                if s.term == RAISE:
                    continue
                n += 1
                run.check(len(s.yields) == 1 and not s.defers and s.yields[0][0] != 'yieldfrom', rule,
                          where(ctx.repo, rl.node), rl.fi.qualname, fmt_atoms(s.atoms),
                          'the package phase keeps one descriptor per resource but this path yields %d stream(s) '
                          '(+%d deferred): streams and descriptors go out of step'
                          % (len(s.yields), len(s.defers)), detail=s.describe(), path=s.path.describe())
            run.check(post_yields == 0, rule, where(ctx.repo, rl.node), rl.fi.qualname, 'yields after the resource loop',
                      'the step yields %d extra stream(s) after the loop without adding a descriptor' % post_yields)
            continue
        _, dsig, dpost, dfunc, dnode = ds
        atoms = set()
        for s in sigs:
            atoms.update(s.atoms)
        for val, _, _ in dsig:
            atoms.update(val)
        atoms = sorted(atoms)
        if len(atoms) > 10:
            raise AnalysisError('%s: too many guard atoms (%d)' % (fi.qualname, len(atoms)))
        for bits in itertools.product([True, False], repeat=len(atoms)):
            val = dict(zip(atoms, bits))
            sm = [s for s in sigs if _consistent(val, s.atoms) and s.term != RAISE]
            dm = [d for d in dsig if _consistent(val, d[0])]
            if not sm or not dm:
                continue   # valuation infeasible in one phase (e.g. raises / asserted away)
            scounts = set((len(s.yields), len(s.defers)) for s in sm)
            dcounts = set((d[1], d[2]) for d in dm)
            n += 1
            run.check(scounts == dcounts and len(scounts) == 1, rule, where(ctx.repo, rl.node), rl.fi.qualname,
                      fmt_atoms(val),
                      'under this valuation the package phase emits %s descriptor(s) (now, deferred) but the stream '
                      'phase yields %s stream(s): rows are paired with the wrong schema or a stream has no descriptor'
                      % (sorted(dcounts), sorted(scounts)),
                      detail='descriptors %s streams %s' % (sorted(dcounts), sorted(scounts)))
        run.check(post_yields == dpost, rule, where(ctx.repo, rl.node), rl.fi.qualname, 'after-loop emission',
                  'descriptors appended after the loop: %d, streams yielded after the loop: %d' % (dpost, post_yields))
    return n


# ---------------------------------------------------------------------- R7 guard dominance in the package phase

def _descr_loops(ctx, f):
    """for <var> in <...resources...> loops of a function (package phase)."""
    out = []
    for n in own_nodes(f.node):
        if isinstance(n, ast.For) and isinstance(n.target, ast.Name):
            it = n.iter
            if _is_resources_expr(it):
                out.append(n)
            elif isinstance(it, ast.Name):
                # local assigned from a resources expression
                for x in own_nodes(f.node):
                    if isinstance(x, ast.Assign) and len(x.targets) == 1 and isinstance(x.targets[0], ast.Name) \
                            and x.targets[0].id == it.id and _is_resources_expr(x.value):
                        out.append(n)
                        break
    return out


def _alias_closure(f, root):
    facts = Facts(f, include_nested=False)
    names = {root}
    changed = True
    while changed:
        changed = False
        for nm, vals in facts.assigns.items():
            if nm in names:
                continue
            for v in vals:
                b = v.id if isinstance(v, ast.Name) else base_name(v)
                if b in names:
                    names.add(nm)
                    changed = True
                    break
    return names


def r7_guard_dominance(ctx, funcs, rule='R7'):
    """funcs: list of FuncInfo holding a package-phase loop over resource descriptors and using a matcher."""
    run = ctx.run
    run.rule(rule, 'GUARD-DOMINANCE: in the package phase of a selector-taking step every write into a resource '
                   'descriptor happens on a path where the selector matched that resource')
    n = 0
    for f in funcs:
        loops = _descr_loops(ctx, f)
        for loop in loops:
            at = Atomizer(ctx.repo, ctx.res, f, loop.target.id, 'descr', scope_node=loop)
            if not at.matchers:
                continue
            aliases = _alias_closure(f, loop.target.id)
            for p in Enumerator(where=f.qualname).body_paths(loop):
                val = at.path_atoms(p)
                if val is None:
                    continue
                writes = []
                for it in p.items:
                    if it.kind in ('stmt', 'loop', 'loop_exit', 'opaque_if'):
                        writes.extend(descriptor_writes(it.node, aliases))
                if not writes:
                    continue
                n += 1
                matched = val.get(('MATCH',))
                run.check(matched is True, rule, where(ctx.repo, writes[0][0]), f.qualname,
                          fmt_atoms(val) + ' -> ' + writes[0][1],
                          'a resource descriptor is edited on a path where the selector did not match it '
                          '(unselected resources must keep their descriptor)', path=p.describe())
    return n


def r7_selected_edited(ctx, funcs, rule='R7e'):
    """funcs: package steps whose whole purpose is to edit the descriptor of each selected resource (update_resource,
    update_schema, set_primary_key - confirmed by reading): the converse of R7."""
    run = ctx.run
    run.rule(rule, 'SELECTED-IS-EDITED: in a step that exists to edit the descriptors of the selected resources, every path of the '
                   'descriptor loop on which the selector matched performs the edit: no further condition decides, besides the '
                   'selector, which resources are treated (the same selector would then select different resources in this step '
                   'than in every other)')
    n = 0
    for f in funcs:
        f = ctx.N(f)
        loops = _descr_loops(ctx, f)
        seen_match = False
        for loop in loops:
            at = Atomizer(ctx.repo, ctx.res, f, loop.target.id, 'descr', scope_node=loop)
            if not at.matchers:
                continue
            aliases = _alias_closure(f, loop.target.id)
            for p in Enumerator(where=f.qualname).body_paths(loop):
                val = at.path_atoms(p)
                if val is None or p.term == RAISE or val.get(('MATCH',)) is not True:
                    continue
                seen_match = True
                writes = []
                for it in p.items:
                    if it.kind in ('stmt', 'loop', 'loop_exit', 'opaque_if'):
                        writes.extend(descriptor_writes(it.node, aliases))
                n += 1
                run.check(bool(writes), rule, where(ctx.repo, loop), f.qualname, fmt_atoms(val) + ' -> edit',
                          'a resource the selector matched is left as it is on some path (%s): what this step treats is no longer '
                          'what its `resources` argument selects' % fmt_atoms(val), path=p.describe())
        if not seen_match:
            raise AnalysisError('%s: no path of a descriptor loop on which the selector matched' % f.qualname)
    return n


# ---------------------------------------------------------------------- R26 append order

def r26_append_order(ctx, rule='R26'):
    run = ctx.run
    run.rule(rule, 'APPEND-ORDER: steps that add resources emit the upstream resources first and their own afterwards, in '
                   'the package phase (descriptor list) and in the stream phase alike, one stream per added descriptor')
    n = 0
    for c in processor_classes(ctx.repo, ctx.res):
        pr = c.methods.get('process_resources')
        pd = c.methods.get('process_datapackage')
        if pr is None or pd is None:
            continue
        # does the package phase add descriptors?
        adds = []
        targets = [pd]
        for x in own_nodes(pd.node):
            if isinstance(x, ast.Call):
                for t in ctx.res.resolve_call(x):
                    if isinstance(t, FuncInfo) and t.cls is not None and t.cls in c.mro and t is not pd \
                            and t.name != 'process_datapackage':
                        targets.append(t)
                    elif isinstance(t, FuncInfo) and t.cls is None and t.parent is None and t.module is pd.module and \
                            not isinstance(t.node, ast.Lambda) and t not in targets:
                        targets.append(t)       # a module-level helper of the same module that the package phase calls
        for f in targets:
            for x in own_nodes(f.node):
                if isinstance(x, ast.Call) and isinstance(x.func, ast.Attribute) and x.func.attr in ('append', 'extend') \
                        and _is_resources_expr(once_bound(f.node, x.func.value)):
                    adds.append((f, x, 'tail'))
                elif isinstance(x, ast.Call) and isinstance(x.func, ast.Attribute) and x.func.attr == 'insert' \
                        and _is_resources_expr(once_bound(f.node, x.func.value)):
                    adds.append((f, x, 'insert'))
                elif isinstance(x, ast.Assign) and any(_resources_subscript(t) for t in x.targets):
                    adds.append((f, x, 'assign'))
        if not adds:
            continue
        n += 1
        for f, x, kind in adds:
            if kind == 'tail':
                run.ok(rule, where(ctx.repo, x), f.qualname + ': ' + u(x), 'new descriptors appended at the tail')
            elif kind == 'insert':
                run.fail(rule, where(ctx.repo, x), f.qualname, x, 'new descriptor inserted before upstream resources')
            else:
                v = x.value
                facts = Facts(f, include_nested=False)
                ok = False
                if isinstance(v, ast.BinOp) and isinstance(v.op, ast.Add):
                    # left operand must be the existing list, right operand the new ones
                    lroots = set()
                    for src in ([v.left] + list(facts.values_of(pseudo(v.left) or ''))):
                        lroots |= {u(s) for s in ast.walk(src) if _is_resources_expr(s)}
                    left_existing = any(_is_resources_expr(s) and base_name(s) in ('descriptor', 'dp')
                                        for src in ([v.left] + list(facts.values_of(pseudo(v.left) or '')))
                                        for s in ast.walk(src))
                    right_new = any('source' in u(s) for src in ([v.right] + list(facts.values_of(pseudo(v.right) or '')))
                                    for s in ast.walk(src) if _is_resources_expr(s))
                    ok = left_existing and right_new
                run.check(ok, rule, where(ctx.repo, x), f.qualname, x,
                          'the rebuilt resource list does not keep the existing resources first')
        # stream phase: `yield from super().process_resources(resources)` dominates every other yield
        pr = ctx.N(pr)         # (explicit iterator pulls read as the zip loop they spell)
        param = pr.params[1] if len(pr.params) > 1 else None
        for p in Enumerator(where=pr.qualname).paths(pr.node.body):
            first = None
            for nd in path_nodes(p, into_loops=True):
                if isinstance(nd, (ast.Yield, ast.YieldFrom)):
                    first = nd
                    break
            fv = once_bound(pr.node, first.value) if isinstance(first, ast.YieldFrom) else None
            ok = isinstance(first, ast.YieldFrom) and isinstance(fv, ast.Call) and \
                isinstance(fv.func, ast.Attribute) and fv.func.attr == 'process_resources' and \
                isinstance(fv.func.value, ast.Call) and u(fv.func.value.func) == 'super' and \
                any(isinstance(a, ast.Name) and a.id == param for a in fv.args)
            run.check(ok, rule, pr.where, pr.qualname, 'first yield: ' + (u(first) if first is not None else 'none'),
                      'a step that appends resources must first pass the upstream streams through '
                      '(yield from super().process_resources(%s))' % param)
        # one yield per added stream: every loop in process_resources after the passthrough yields exactly once per iteration
        for lp in [x for x in own_nodes(pr.node) if isinstance(x, ast.For)]:
            if any(isinstance(y, (ast.Yield, ast.YieldFrom)) for y in ast.walk(lp)):
                for bp in Enumerator(where=pr.qualname).body_paths(lp):
                    ys = [y for y in path_nodes(bp, into_loops=False) if isinstance(y, (ast.Yield, ast.YieldFrom))]
                    inner = [y for it in bp.items if it.kind == 'loop' for y in ast.walk(it.node)
                             if isinstance(y, (ast.Yield, ast.YieldFrom))]
                    # nested loop over the streams of one source (sources): its own loop is checked recursively
                    if inner and not ys:
                        continue
                    run.check(len(ys) == 1 and bp.term == FALL, rule, where(ctx.repo, lp), pr.qualname,
                              'per-iteration yields of ' + u(lp.target) + ' loop: %d' % len(ys),
                              'an added resource must be yielded exactly once per added descriptor (found %d, term=%s)'
                              % (len(ys), bp.term))
    run.floor(rule, n, 3, 'resource-adding processor classes (iterable_loader, load, sources)')
    return n


# ---------------------------------------------------------------------- R27 name uniqueness

def _has_name_key(expr):
    for d in ast.walk(expr):
        if isinstance(d, ast.Dict) and 'name' in [_const(k) for k in d.keys if k is not None]:
            return True
        if isinstance(d, ast.Call) and isinstance(d.func, ast.Name) and d.func.id == 'dict' \
                and any(k.arg == 'name' for k in d.keywords):
            return True
    return False


def _membership_checked(facts, nodes):
    """Is there, among `nodes`, a membership test whose container is taken (within two assignment hops) from the
    names of a package's resources?"""
    for nd in nodes:
        if isinstance(nd, ast.Compare) and any(isinstance(o, (ast.In, ast.NotIn)) for o in nd.ops):
            cont = nd.comparators[0]
            level = [cont]
            for _ in range(3):
                if any(_is_resources_expr(s2) for s in level for s2 in ast.walk(s)):
                    return True
                nxt = []
                for s in level:
                    for nm in names_in(s):
                        nxt.extend(v for v in facts.values_of(nm) if not isinstance(v, ast.Constant))
                level = nxt
    return False


def r27_name_uniqueness(ctx, rule='R27'):
    run = ctx.run
    run.rule(rule, 'NAME-UNIQUENESS: a step that adds a newly named resource descriptor compares the new name with the '
                   'names already in the package (membership test, assertion or rename loop) on every path before adding '
                   'it; the framework pairs streams with descriptors by name')
    n_sites = 0
    # (a)/(b): class-style processors that add descriptors in their package phase
    for c in processor_classes(ctx.repo, ctx.res):
        for name in ('process_datapackage', 'safe_process_datapackage'):
            f = c.methods.get(name)
            if f is None:
                continue
            f = ctx.N(f, keep=('process_datapackage', 'safe_process_datapackage'))   # a name-picking helper is part of the method
            adds = []
            for x in own_nodes(f.node):
                if isinstance(x, ast.Call) and isinstance(x.func, ast.Attribute) and x.func.attr in ('append', 'extend') \
                        and _is_resources_expr(x.func.value):
                    adds.append(x)
                elif isinstance(x, ast.Assign) and any(_resources_subscript(t) for t in x.targets) \
                        and isinstance(x.value, ast.BinOp):
                    adds.append(x)
            if not adds:
                continue
            facts = Facts(f, include_nested=False)
            for x in adds:
                n_sites += 1
                en = Enumerator(where=f.qualname, relevant=lambda n: isinstance(n, ast.Compare) and
                                any(isinstance(o, (ast.In, ast.NotIn, ast.Is, ast.IsNot)) for o in n.ops))
                seen = set()
                for p in en.paths(f.node.body):
                    nodes = []
                    hit = False
                    for nd in path_nodes(p, into_loops=True):
                        if nd is x or (isinstance(x, ast.Assign) and nd is x.value):
                            hit = True
                            break
                        nodes.append(nd)
                    if not hit:
                        continue
                    # only guards that talk about a name select the report key
                    gs = [('' if pol else 'not ') + u(t) for t, pol in p.guards()
                          if any(isinstance(z, ast.Name) and z.id == 'name' for z in ast.walk(t))]
                    key = (' & '.join(gs) or '<always>') + ' -> ' + alpha_text(x, f.node)
                    if key in seen:
                        continue
                    seen.add(key)
                    run.check(_membership_checked(facts, nodes), rule, where(ctx.repo, x), f.qualname, key,
                              'resource descriptor(s) added without comparing the new name(s) with the resources '
                              'already present: a second resource of the same name makes the package invalid and '
                              'mis-pairs rows with schemas', path=p.describe())
    # (c): function-style steps that rebuild the resource list and put newly named descriptors into it
    for fi in package_steps(ctx.repo):
        ds = descr_signature(ctx, fi)
        if ds[0] != 'sig' or len(ds) < 5:
            continue
        f = ds[3]
        facts = Facts(f, include_nested=False)
        loops = [x for x in own_nodes(f.node) if isinstance(x, ast.For) and isinstance(x.target, ast.Name)
                 and (_is_resources_expr(x.iter) or (isinstance(x.iter, ast.Name) and x.iter.id in f.params))]
        if not loops:
            continue
        loop = loops[-1] if len(loops) == 1 else [l for l in loops if _is_resources_expr(l.iter) or True][-1]
        var = loop.target.id
        pre_nodes = []
        for st in f.node.body:
            if st is loop:
                break
            pre_nodes.extend(eval_order(st))

        def emitted(nd):
            if isinstance(nd, ast.Yield) and nd.value is not None:
                return nd.value
            if isinstance(nd, ast.Call) and isinstance(nd.func, ast.Attribute) and nd.func.attr == 'append' \
                    and isinstance(nd.func.value, ast.Name) and nd.args and nd.func.value.id != var:
                return nd.args[0]
            return None
        seen = set()
        at = Atomizer(ctx.repo, ctx.res, f, var, 'descr', scope_node=loop)
        body = loop._parent.body if loop in getattr(loop._parent, 'body', []) else []
        post = body[body.index(loop) + 1:] if body else []
        segments = [(p, 'in-loop') for p in Enumerator(where=f.qualname).body_paths(loop)]
        segments += [(p, 'after-loop') for p in Enumerator(where=f.qualname).paths(post)] if post else []
        for p, seg in segments:
            val = at.path_atoms(p)
            if val is None:
                continue
            nodes = list(path_nodes(p, into_loops=True))
            renamed = set()
            fresh = set()
            for nd in nodes:
                if isinstance(nd, ast.Assign):
                    for t in nd.targets:
                        if isinstance(t, ast.Subscript) and _const(t.slice) == 'name' and isinstance(t.value, ast.Name):
                            renamed.add(t.value.id)
                        if isinstance(t, ast.Name) and _has_name_key(nd.value):
                            fresh.add(t.id)
                    continue
                e = emitted(nd)
                if e is None:
                    continue
                if seg == 'after-loop' and isinstance(e, ast.Name):
                    # `for d in deferred: yield d` flushes descriptors that were judged when they were put on the list
                    fl = [a for a in _ancestors(nd, f.node) if isinstance(a, ast.For) and isinstance(a.iter, ast.Name)
                          and a.iter.id in flushed_lists(f, loop) and pseudo(a.target) == e.id]
                    if fl:
                        continue
                if isinstance(nd, ast.Call):
                    lst = nd.func.value.id
                    main = isinstance(ds[4].value, ast.Name) and lst == ds[4].value.id
                    if not main and lst not in flushed_lists(f, loop):
                        continue
                new = False
                if isinstance(e, ast.Name):
                    if e.id in renamed or e.id in fresh:
                        new = True
                    elif e.id != var and not _derived_from_loopvar(facts, e.id, var):
                        new = True
                elif _has_name_key(e):
                    new = True
                if not new:
                    continue
                n_sites += 1
                # option flags identify the case; local state variables (their names and encoding are private) do not
                local_names = {x.id for x in ast.walk(f.node) if isinstance(x, ast.Name) and isinstance(x.ctx, ast.Store)}
                key = fmt_atoms({(('EQ',) if a[0] == 'EQ' else a): v for a, v in val.items()
                                 if a[0] in ('EQ', 'MATCH') or (a[0] == 'FLAG' and a[1] not in local_names)}) + ' -> ' + \
                    alpha_text(nd, f.node)
                if key in seen:
                    continue
                seen.add(key)
                run.check(_membership_checked(facts, pre_nodes + nodes), rule, where(ctx.repo, nd), f.qualname, key,
                          'a newly named resource descriptor is put into the package without comparing its name with '
                          'the resources already present', path=p.describe())
    run.floor(rule, n_sites, 5, 'descriptor-adding sites')
    return n_sites


def _ancestors(node, stop):
    n = getattr(node, '_parent', None)
    while n is not None and n is not stop:
        yield n
        n = getattr(n, '_parent', None)


def _derived_from_loopvar(facts, name, var):
    for v in facts.values_of(name):
        if isinstance(v, ast.Name) and v.id == var:
            return True
    return False


# ---------------------------------------------------------------------- R29 no shared field descriptors

def _fresh(ctx, v):
    """Is the expression a freshly created object (literal / dict(...) / deep copy)?"""
    if isinstance(v, (ast.Dict, ast.List, ast.Set, ast.Tuple, ast.Constant, ast.ListComp, ast.DictComp, ast.JoinedStr)):
        return True
    if isinstance(v, ast.Call):
        en = ctx.res.external_name(v)
        if en in ('copy.deepcopy', 'builtins.dict', 'json.loads'):
            return True
        if isinstance(v.func, ast.Name) and v.func.id == 'dict':
            return True
    return False


def _reaching_assign(node, name):
    """Value of the closest assignment to `name` that precedes `node` in its own or an enclosing block (None if there is a
    loop / branch boundary that makes it ambiguous: then all assignments are considered)."""
    cur = node
    while getattr(cur, '_parent', None) is not None:
        parent = cur._parent
        for fld in ('body', 'orelse', 'finalbody'):
            blk = getattr(parent, fld, None)
            if isinstance(blk, list) and cur in blk:
                for st in reversed(blk[:blk.index(cur)]):
                    if isinstance(st, ast.Assign) and any(isinstance(t, ast.Name) and t.id == name for t in st.targets):
                        return [st.value]
                    if any(isinstance(x, ast.Assign) and any(isinstance(t, ast.Name) and t.id == name for t in x.targets)
                           for x in ast.walk(st)):
                        return None      # assigned inside a nested statement: ambiguous
        if isinstance(parent, (ast.FunctionDef, ast.AsyncFunctionDef, ast.Lambda)):
            return None
        cur = parent
    return None


def r29_no_shared_fields(ctx, funcs, rule='R29'):
    """funcs: FuncInfos of package phases (and their helpers).  A value put into a schema `fields` list is either taken from
    the same package's descriptor (moved / kept) or freshly created / deep-copied."""
    run = ctx.run
    run.rule(rule, 'NO-SHARED-FIELD-OBJECTS: every object a step appends to a resource\'s schema fields is created (or deep-copied) for '
                   'that resource, or is taken from the descriptor itself; appending one user-supplied / closure object to several '
                   'resources makes their field descriptors the same object, and a later step that edits the field of one selected '
                   'resource in place (set_type, rename_fields, dumpers) silently edits the others too')
    n = 0
    # lists returned by a helper and then put into a fields list by the caller are fields lists inside the helper too
    returned_fl = {}
    for f in funcs:
        facts = Facts(f, include_nested=False)
        for nd in own_nodes(f.node):
            v = None
            if isinstance(nd, ast.Call) and isinstance(nd.func, ast.Attribute) and nd.func.attr == 'extend' \
                    and "['fields']" in u(nd.func.value) and nd.args:
                v = nd.args[0]
            if isinstance(nd, ast.Assign) and isinstance(nd.targets[0], ast.Subscript) and _const(nd.targets[0].slice) == 'fields':
                v = nd.value
            if v is None:
                continue
            for src in ([v] + list(facts.assigns.get(pseudo(v) or '', []))):
                if isinstance(src, ast.Call):
                    for t in ctx.res.resolve_call(src):
                        if isinstance(t, FuncInfo):
                            for r in own_nodes(t.node):
                                if isinstance(r, ast.Return) and isinstance(r.value, ast.Name):
                                    returned_fl.setdefault(t.qualname, set()).add(r.value.id)
    for f in funcs:
        facts = Facts(f, include_nested=False)
        # names holding a schema field list
        fl = set(returned_fl.get(f.qualname, ()))
        changed = True
        while changed:
            changed = False
            for nm, vals in facts.assigns.items():
                if nm in fl:
                    continue
                for v in vals:
                    t = u(v)
                    if "'fields'" in t and ("['fields']" in t or ".get('fields'" in t or ".setdefault('fields'" in t):
                        fl.add(nm)
                        changed = True
                        break
            for nd in own_nodes(f.node):
                if isinstance(nd, ast.Assign) and isinstance(nd.targets[0], ast.Subscript) and _const(nd.targets[0].slice) == 'fields' \
                        and isinstance(nd.value, ast.Name) and nd.value.id not in fl:
                    fl.add(nd.value.id)
                    changed = True
                if isinstance(nd, ast.Call) and isinstance(nd.func, ast.Attribute) and nd.func.attr == 'extend' \
                        and (pseudo(nd.func.value) in fl or "['fields']" in u(nd.func.value)) and nd.args \
                        and isinstance(nd.args[0], ast.Name) and nd.args[0].id not in fl and nd.args[0].id in facts.assigns \
                        and any(isinstance(v, ast.List) for v in facts.assigns[nd.args[0].id]):
                    fl.add(nd.args[0].id)
                    changed = True
        # descriptor-derived names: anything rooted at the package / a resource descriptor
        def descr_rooted(expr):
            roots = facts.roots(expr)
            for r in roots:
                for v in facts.values_of(r):
                    t = u(v)
                    if "descriptor" in t or "['resources']" in t or "['schema']" in t or ".get('schema'" in t:
                        return True
            return bool(roots & {'resource', 'res', 'datapackage', 'dp', 'package', 'source_spec'} & set(f.all_params) | 
                        {r for r in roots if r in ('package',)})
        for nd in own_nodes(f.node):
            if not (isinstance(nd, ast.Call) and isinstance(nd.func, ast.Attribute) and nd.func.attr in ('append', 'extend', 'insert')):
                continue
            recv = nd.func.value
            if not (pseudo(recv) in fl or "['fields']" in u(recv)):
                continue
            x = nd.args[-1] if nd.args else None
            if x is None:
                continue
            n += 1
            cands = [x] if not isinstance(x, ast.Name) else (_reaching_assign(nd, x.id) or facts.assigns.get(x.id) or [x])
            bad = []
            for v in cands:
                if _fresh(ctx, v):
                    continue
                if isinstance(v, ast.Name) and v.id in facts.assigns and all(_fresh(ctx, w) for w in facts.assigns[v.id]):
                    continue
                if descr_rooted(v):
                    continue
                bad.append(v)
            run.check(not bad, rule, where(ctx.repo, nd), f.qualname, nd,
                      'the object %s put into the schema fields is neither created for this resource nor deep-copied: every '
                      'matched resource gets the very same field object (and shares it with the caller\'s argument)'
                      % ', '.join(u(b) for b in bad))
    return n


def r29_no_shared_descriptor_values(ctx, funcs, rule='R29d'):
    """The same for what a step stores into the resource descriptors themselves: inside the loop over the descriptors, a value that
    comes from the step's arguments (a name of the enclosing factory: `props`, `primary_key`) is stored into each selected resource
    as it is - `resource.update(props)`, `schema['primaryKey'] = primary_key` - so every selected resource holds the very same
    objects (a schema dict, a list).  The deep copy each later step takes of the whole descriptor keeps that sharing, and a step
    that then edits one selected resource in place edits the others too."""
    run = ctx.run
    run.rule(rule, 'NO-SHARED-DESCRIPTOR-VALUES: a value of the enclosing factory scope that is stored into a resource descriptor inside '
                   'the loop over the descriptors (update(x) / [k] = x / setdefault(k, x)) is copied per resource (copy.deepcopy, or a '
                   'fresh literal / dict(..) / list(..) of immutable parts)')
    n = 0
    for f in funcs:
        if not isinstance(f.parent, FuncInfo):
            continue
        outer = set(f.parent.all_params) | {t.id for x in own_nodes(f.parent.node) if isinstance(x, ast.Assign) for t in x.targets
                                            if isinstance(t, ast.Name)}
        local = {t.id for x in own_nodes(f.node) if isinstance(x, ast.Name) and isinstance(x.ctx, ast.Store) for t in [x]} | set(f.all_params)
        outer -= local
        if not outer:
            continue
        for loop in _descr_loops(ctx, f):
            aliases = _alias_closure(f, loop.target.id)
            for nd in ast.walk(loop):
                vals = []
                if isinstance(nd, ast.Call) and isinstance(nd.func, ast.Attribute) and nd.func.attr in ('update', 'setdefault') and nd.args:
                    b = nd.func.value
                    while isinstance(b, (ast.Subscript, ast.Attribute)) or (isinstance(b, ast.Call) and isinstance(b.func, ast.Attribute)):
                        b = b.value if not isinstance(b, ast.Call) else b.func.value
                    if isinstance(b, ast.Name) and b.id in aliases:
                        vals = [nd.args[-1]] + [k.value for k in nd.keywords]
                elif isinstance(nd, ast.Assign) and isinstance(nd.targets[0], ast.Subscript):
                    b = nd.targets[0]
                    while isinstance(b, (ast.Subscript, ast.Attribute)) or (isinstance(b, ast.Call) and isinstance(b.func, ast.Attribute)):
                        b = b.value if not isinstance(b, ast.Call) else b.func.value
                    if isinstance(b, ast.Name) and b.id in aliases:
                        vals = [nd.value]
                for v in vals:
                    if isinstance(v, ast.Name) and v.id in outer:
                        n += 1
                        run.check(False, rule, where(ctx.repo, nd), f.qualname, nd,
                                  'the step\'s own argument %s is stored into every selected resource as it is: the resources share one '
                                  'object (and share it with the caller), so a later step that edits one of them in place - set_type, '
                                  'set_primary_key, rename_fields on a selected resource - changes the others too' % v.id)
                    elif isinstance(v, ast.Call) and names_in(v) & outer and _fresh(ctx, v):
                        n += 1
                        run.ok(rule, where(ctx.repo, nd), f.qualname + ': ' + u(nd)[:100], 'copied per resource')
    return n


def package_phase_functions(ctx):
    """Package steps, their module-local helpers, and the package-phase methods of processor classes."""
    funcs = []
    for fi in package_steps(ctx.repo):
        for f in _local_funcs(ctx, fi):
            if f not in funcs:
                funcs.append(f)
    mods = {f.module.name for f in funcs}
    for f in ctx.repo.functions.values():
        if f.module.name in mods and f not in funcs and not isinstance(f.node, ast.Lambda):
            funcs.append(f)
    for c in processor_classes(ctx.repo, ctx.res):
        for nme in ('process_datapackage', 'safe_process_datapackage'):
            if nme in c.methods and c.methods[nme] not in funcs:
                funcs.append(c.methods[nme])
    return funcs


# ---------------------------------------------------------------------- PKW who may write a schema's primary key
_PK_WRITERS = {
    'dataflows.processors.set_primary_key': 'the step whose purpose it is',
    'dataflows.processors.concatenate': 'builds the key of its own target from the keys of the sources',
}


def pk_writers(ctx, rule='PKW'):
    """The primary key of a resource schema names fields of that schema, as a list or - equally valid - as one string.  Only the steps
    whose documented purpose it is write it; a step that "tidies" it on the side (after deleting or selecting fields, say) has to get
    both forms and every later reader right, and the field-level steps are specified to change `fields` and the rows, nothing else."""
    run, repo = ctx.run, ctx.repo
    run.rule(rule, 'WHO-MAY-WRITE(primaryKey): a store into / deletion of the key `primaryKey` of a schema occurs only in %s'
             % ', '.join(sorted(m.rsplit('.', 1)[-1] for m in _PK_WRITERS)))
    n = 0
    from sa.normalize import module_literals

    def _key(e, m):
        c = _const(e)
        if c is None and isinstance(e, ast.Name):
            lit = module_literals(m).get(e.id)          # (the key given a name at module level)
            c = lit.value if isinstance(lit, ast.Constant) else None
        return c
    for m in sorted(repo.modules.values(), key=lambda m: m.name):
        if not m.name.startswith('dataflows.'):
            continue
        for nd in ast.walk(m.tree):
            tg = []
            if isinstance(nd, ast.Assign):
                tg = nd.targets
            elif isinstance(nd, (ast.AugAssign, ast.AnnAssign)):
                tg = [nd.target]
            elif isinstance(nd, ast.Delete):
                tg = nd.targets
            hit = [t for t in tg if isinstance(t, ast.Subscript) and _key(t.slice, m) == 'primaryKey']
            if isinstance(nd, ast.Call) and isinstance(nd.func, ast.Attribute) and nd.func.attr in ('pop', 'setdefault', 'update') and \
                    ((nd.args and _key(nd.args[0], m) == 'primaryKey') or any(k.arg == 'primaryKey' for k in nd.keywords)):
                hit = [nd]
            for t in hit:
                n += 1
                run.check(m.name in _PK_WRITERS, rule, where(repo, nd), fq(repo, nd), nd,
                          'the primary key of a schema is rewritten outside the steps that own it (%s): the key may be given as one '
                          'string as well as a list, and every reader of the schema relies on it naming existing fields' % m.name)
    run.floor(rule, n, 2, 'stores into primaryKey')
    return n
