"""Constant-set evaluation of module / class level tables (R16 TABLE-AGREEMENT support)."""
import ast

from sa.deps import pseudo
from sa.loader import AnalysisError, ClassInfo, FuncInfo
from sa.model import _const, u


def const_set(ctx, modname, name, _depth=0):
    """Set of possible constant values of a module-level name (all assignments, incl. those under try/if platform probes).
    Follows imports and simple aliases. Non-constant -> AnalysisError."""
    if _depth > 6:
        raise AnalysisError('constant %s.%s: alias chain too long' % (modname, name))
    m = ctx.repo.module(modname)
    if name in m.defs:
        out = set()
        for d in m.defs[name]:
            if not isinstance(d, tuple):
                raise AnalysisError('%s.%s is not a constant' % (modname, name))
            v = d[1]
            # chained assignment a = b = X is stored with the same value for both names
            if isinstance(v, ast.Constant):
                out.add(v.value)
            elif isinstance(v, ast.Name):
                out |= const_set(ctx, modname, v.id, _depth + 1)
            else:
                raise AnalysisError('%s.%s = %s is not a constant expression' % (modname, name, u(v)))
        return out
    if name in m.imports:
        imp = m.imports[name]
        if imp[0] == 'symbol':
            return const_set(ctx, imp[1], imp[2], _depth + 1)
    raise AnalysisError('constant %s.%s not found' % (modname, name))


def class_dict(ctx, cls, attr):
    """(owner class, {key: value node}) for a class-level dict literal attribute looked up through the MRO."""
    k, v = ctx.res.lookup_class_attr(cls, attr)
    if v is None:
        return None, None
    if isinstance(v, ast.Call) and isinstance(v.func, ast.Name) and v.func.id == 'dict' and not v.args and all(k_.arg for k_ in v.keywords):
        return k, {k_.arg: k_.value for k_ in v.keywords}        # dict(name=value, ...) is the same table
    if not isinstance(v, ast.Dict):
        raise AnalysisError('%s.%s is not a dict literal' % (cls.qualname, attr))
    out = {}
    for kk, vv in zip(v.keys, v.values):
        if isinstance(kk, ast.Constant):
            out[kk.value] = vv
        else:
            raise AnalysisError('%s.%s has a non-constant key' % (cls.qualname, attr))
    return k, out


def literal(ctx, modname, node):
    """Evaluate a literal-ish node (constants, dict/list literals, names of module constants) to a *set-valued* python value.
    Returns list of possible python values (cartesian products are not needed: at most one varying leaf is supported)."""
    if isinstance(node, ast.Constant):
        return [node.value]
    if isinstance(node, ast.Name):
        try:
            return sorted(const_set(ctx, modname, node.id), key=repr)
        except AnalysisError:
            # a module-level literal of another shape (tuple of pairs, dict, ...): evaluate its single assignment
            vals = [st.value for st in ctx.repo.module(modname).tree.body
                    if isinstance(st, ast.Assign) and len(st.targets) == 1 and isinstance(st.targets[0], ast.Name)
                    and st.targets[0].id == node.id]
            if len(vals) != 1:
                raise
            return literal(ctx, modname, vals[0])
    if isinstance(node, ast.Call) and isinstance(node.func, ast.Name) and node.func.id == 'dict' and len(node.args) == 1 \
            and not node.keywords:
        # dict(<pairs>) / dict(<mapping>)
        outs = []
        for v in literal(ctx, modname, node.args[0]):
            outs.append(dict(v))
        return outs
    if isinstance(node, ast.Dict):
        outs = [{}]
        for k, v in zip(node.keys, node.values):
            ks = literal(ctx, modname, k)
            vs = literal(ctx, modname, v)
            if len(ks) != 1:
                raise AnalysisError('non-constant dict key')
            outs = [dict(o, **{ks[0]: x}) for o in outs for x in vs]
        return outs
    if isinstance(node, (ast.List, ast.Tuple)):
        outs = [[]]
        for e in node.elts:
            vs = literal(ctx, modname, e)
            outs = [o + [x] for o in outs for x in vs]
        return outs
    if isinstance(node, ast.Call) and isinstance(node.func, ast.Name) and node.func.id == 'dict' and not node.args:
        outs = [{}]
        for k in node.keywords:
            vs = literal(ctx, modname, k.value)
            outs = [dict(o, **{k.arg: x}) for o in outs for x in vs]
        return outs
    raise AnalysisError('not a literal: %s' % u(node))


def as_lambda(ctx, modname, node):
    """A table entry that is a callable of one argument, as (parameter name, body expression): a lambda, or the name of a
    module-level function whose body is a single `return <expr>` (docstring allowed).  Else None."""
    if isinstance(node, ast.Lambda) and len(node.args.args) == 1:
        return node.args.args[0].arg, node.body
    def named(nm):
        fi = ctx.repo.functions.get('%s:%s' % (modname, nm))
        if fi is None:
            imp = ctx.repo.module(modname).imports.get(nm)
            if imp and imp[0] == 'symbol':
                fi = ctx.repo.functions.get('%s:%s' % (imp[1], imp[2]))
        return fi
    if isinstance(node, ast.Name):
        fi = named(node.id)
        if fi is not None and not isinstance(fi.node, ast.Lambda) and len(fi.params) == 1:
            body = [st for st in fi.node.body if not (isinstance(st, ast.Expr) and isinstance(st.value, ast.Constant))]
            if len(body) == 1 and isinstance(body[0], ast.Return) and body[0].value is not None:
                return fi.params[0], body[0].value
    # functools.partial(f, a1..ak) over a one-expression function of k+1 parameters: the remaining parameter, and the body with
    # the bound parameters replaced by the arguments
    if isinstance(node, ast.Call) and ast.unparse(node.func) in ('partial', 'functools.partial') and node.args and \
            isinstance(node.args[0], ast.Name) and not node.keywords:
        fi = named(node.args[0].id)
        bound = node.args[1:]
        if fi is not None and not isinstance(fi.node, ast.Lambda) and len(fi.params) == len(bound) + 1:
            body = [st for st in fi.node.body if not (isinstance(st, ast.Expr) and isinstance(st.value, ast.Constant))]
            if len(body) == 1 and isinstance(body[0], ast.Return) and body[0].value is not None:
                from sa.astcopy import clone
                env = dict(zip(fi.params, bound))

                class S(ast.NodeTransformer):
                    def visit_Name(self, n):
                        if isinstance(n.ctx, ast.Load) and n.id in env:
                            return clone(env[n.id])
                        return n
                return fi.params[-1], S().visit(clone(body[0].value))
    return None


def strftime_format_names(lam, ctx=None, modname=None):
    """For `lambda d: d.strftime(NAME)` (or a named one-line function doing the same) -> NAME node; else None."""
    if ctx is not None:
        al = as_lambda(ctx, modname, lam)
    else:
        al = (lam.args.args[0].arg, lam.body) if isinstance(lam, ast.Lambda) and len(lam.args.args) == 1 else None
    if al is None:
        return None
    arg, body = al
    if isinstance(body, ast.Call) and isinstance(body.func, ast.Attribute) and body.func.attr == 'strftime' \
            and len(body.args) == 1 and isinstance(body.func.value, ast.Name) and body.func.value.id == arg:
        return body.args[0]
    return None


def norm_fmt(f):
    """%04Y is the zero-padded spelling of %Y on platforms that need it."""
    return f.replace('%04Y', '%Y')


def option_defaults(fnode, key):
    """The default(s) with which an option is read in a function: `<x>.get(key, D)` directly, or through a table of defaults that a loop
    applies - `for option, default in (('a', 1), ...)` / `in {...}.items()` / `in dict(a=1, ...).items()` (the table also through a local
    bound once to it) with `<x>.get(option, default)` in its body.  -> [D, ...]"""
    from rules.stream import once_bound
    out = []
    for n in ast.walk(fnode):
        if isinstance(n, ast.Call) and isinstance(n.func, ast.Attribute) and n.func.attr == 'get' and len(n.args) == 2 and \
                isinstance(n.args[0], ast.Constant) and n.args[0].value == key:
            out.append(n.args[1])
        if isinstance(n, ast.For) and isinstance(n.target, ast.Tuple) and len(n.target.elts) == 2 and \
                all(isinstance(t, ast.Name) for t in n.target.elts):
            o, d = [t.id for t in n.target.elts]
            if not any(isinstance(c, ast.Call) and isinstance(c.func, ast.Attribute) and c.func.attr == 'get' and
                       [ast.unparse(a) for a in c.args] == [o, d] for c in ast.walk(n)):
                continue
            it = n.iter
            if isinstance(it, ast.Call) and isinstance(it.func, ast.Attribute) and it.func.attr == 'items' and not it.args:
                tab = once_bound(fnode, it.func.value)
                if isinstance(tab, ast.Dict):
                    out += [v for k, v in zip(tab.keys, tab.values) if isinstance(k, ast.Constant) and k.value == key]
                elif isinstance(tab, ast.Call) and isinstance(tab.func, ast.Name) and tab.func.id == 'dict' and not tab.args:
                    out += [k.value for k in tab.keywords if k.arg == key]
            else:
                tab = once_bound(fnode, it)
                if isinstance(tab, (ast.Tuple, ast.List)):
                    out += [e.elts[1] for e in tab.elts if isinstance(e, ast.Tuple) and len(e.elts) == 2
                            and isinstance(e.elts[0], ast.Constant) and e.elts[0].value == key]
    return out
