"""Structural copy of AST nodes.  copy.deepcopy follows the `_parent` back-links the loader attaches and so copies the whole
module for every expression; clone() copies the syntactic fields and the position attributes only."""
import ast

_POS = ('lineno', 'col_offset', 'end_lineno', 'end_col_offset')


def clone(n):
    if isinstance(n, ast.AST):
        new = n.__class__()
        for f in n._fields:
            setattr(new, f, clone(getattr(n, f, None)))
        for a in _POS:
            if hasattr(n, a):
                setattr(new, a, getattr(n, a))
        return new
    if isinstance(n, list):
        return [clone(x) for x in n]
    return n
