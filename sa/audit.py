"""Sensitivity audit / self-test: apply single-edit mutants and behaviour-preserving refactors to scratch copies of
/repo/dataflows and run the checks on them.  Never changes the verdict of a MANIFEST command."""
import concurrent.futures
import json
import os
import shutil
import subprocess
import sys
import tempfile

VERIF = os.path.dirname(os.path.dirname(os.path.abspath(__file__)))
CORPUS = os.path.join(VERIF, 'selftest', 'corpus.json')
SEEDED = os.path.join(VERIF, 'seeded')
REPO = os.environ.get('VERIF_REPO', '/repo')


def load_corpus():
    if not os.path.exists(CORPUS):
        return []
    with open(CORPUS) as fh:
        return json.load(fh)['entries']


def seeded_entries():
    out = []
    if not os.path.isdir(SEEDED):
        return out
    for d in sorted(os.listdir(SEEDED)):
        mp = os.path.join(SEEDED, d, 'meta.json')
        pp = os.path.join(SEEDED, d, 'patch.diff')
        if os.path.exists(mp) and os.path.exists(pp):
            with open(mp) as fh:
                meta = json.load(fh)
            # (a change seeded under one property whose effect lies in another property's statement is evaluated under that one)
            out.append(dict(id='seeded/' + d, property=meta.get('evaluate_under', meta['property']), patch=pp, expect='violation',
                            also=meta.get('also_breaks', [])))
    return out


def refactor_entries():
    """Behaviour-preserving refactorings written by independent sub-agents (selftest/refactors/<prop>/r*.diff): every check
    must stay silent on each of them."""
    import glob
    out = []
    base = os.path.join(VERIF, 'selftest', 'refactors')
    for p in sorted(glob.glob(os.path.join(base, '*', '*.diff'))):
        prop = os.path.basename(os.path.dirname(p))
        out.append(dict(id='refactor/%s/%s' % (prop, os.path.basename(p)[:-5]), property=prop, patch=p, expect='silent',
                        also=['C%02d' % i for i in range(1, 21) if 'C%02d' % i != prop], all_silent=True))
    return out


def _apply(entry, root):
    if 'patch' in entry:
        r = subprocess.run(['patch', '-p1', '-s', '-d', root, '-i', entry['patch']], capture_output=True, text=True)
        if r.returncode != 0:
            return 'patch does not apply: ' + (r.stdout + r.stderr)[:200]
        return None
    edits = entry.get('edits') or [dict(file=entry['file'], find=entry['find'], replace=entry['replace'])]
    for ed in edits:
        p = os.path.join(root, ed['file'])
        if not os.path.exists(p):
            return 'file missing: ' + ed['file']
        with open(p) as fh:
            s = fh.read()
        if s.count(ed['find']) != 1:
            return 'anchor text occurs %d times in %s' % (s.count(ed['find']), ed['file'])
        with open(p, 'w') as fh:
            fh.write(s.replace(ed['find'], ed['replace']))
    return None


def run_entry(entry, tier='quick'):
    tmp = tempfile.mkdtemp(prefix='verif-audit-')
    try:
        shutil.copytree(os.path.join(REPO, 'dataflows'), os.path.join(tmp, 'dataflows'),
                        ignore=shutil.ignore_patterns('__pycache__'))
        err = _apply(entry, tmp)
        if err:
            return dict(id=entry['id'], property=entry['property'], status='skipped', why=err)
        # must still compile
        r = subprocess.run([sys.executable, '-B', '-m', 'compileall', '-q', os.path.join(tmp, 'dataflows')],
                           capture_output=True, text=True)
        env = dict(os.environ, VERIF_REPO=tmp, VERIF_EVIDENCE_DIR=os.path.join(tmp, 'ev'), VERIF_NO_AUDIT='1')
        props = [entry['property']] + list(entry.get('also', []))
        results = {}
        for p in props:
            r = subprocess.run([sys.executable, '-B', '-m', 'sa.cli', p, '--tier', tier], cwd=VERIF, env=env,
                               capture_output=True, text=True)
            rules = sorted(set(ln.split()[0] for ln in r.stdout.splitlines()
                               if ln.startswith('  ') and not ln.startswith('   ') and len(ln.split()) > 3 and ln.split()[2] == 'in'))
            results[p] = dict(rc=r.returncode, rules=rules, out=r.stdout[-1500:] if r.returncode == 2 else '')
        main = results[entry['property']]
        if entry['expect'] == 'violation':
            ok = main['rc'] == 1
            if ok and entry.get('rule'):
                ok = any(x.startswith(entry['rule']) for x in main['rules'])
        else:
            ok = main['rc'] == 0
            if entry.get('all_silent'):
                ok = all(v['rc'] == 0 for v in results.values())
                main = dict(main, rules=sorted(set(r for v in results.values() for r in v['rules'])),
                            rc=max(v['rc'] for v in results.values()),
                            out=' | '.join('%s rc=%d' % (k, v['rc']) for k, v in results.items() if v['rc']))
        return dict(id=entry['id'], property=entry['property'], expect=entry['expect'], status='ok' if ok else 'MISS',
                    rc=main['rc'], rules=main['rules'], detail=main['out'],
                    also={k: v['rc'] for k, v in results.items() if k != entry['property']})
    finally:
        shutil.rmtree(tmp, ignore_errors=True)


def run_all(entries, jobs=16, tier='quick'):
    with concurrent.futures.ThreadPoolExecutor(max_workers=jobs) as ex:
        return list(ex.map(lambda e: run_entry(e, tier), entries))


def _sweep_one(args):
    prop, m = args
    tmp = tempfile.mkdtemp(prefix='verif-sweep-')
    try:
        shutil.copytree(os.path.join(REPO, 'dataflows'), os.path.join(tmp, 'dataflows'),
                        ignore=shutil.ignore_patterns('__pycache__'))
        p = os.path.join(tmp, m['file'])
        with open(p) as fh:
            s = fh.read()
        s2 = s[:m['start']] + m['repl'] + s[m['end']:]
        try:
            compile(s2, p, 'exec')
        except SyntaxError:
            return None
        with open(p, 'w') as fh:
            fh.write(s2)
        env = dict(os.environ, VERIF_REPO=tmp, VERIF_EVIDENCE_DIR=os.path.join(tmp, 'ev'), VERIF_NO_AUDIT='1')
        r = subprocess.run([sys.executable, '-B', '-m', 'sa.cli', prop], cwd=VERIF, env=env, capture_output=True, text=True)
        return dict(file=m['file'], func=m['func'], line=m['line'], kind=m['kind'], orig=m['orig'][:100], rc=r.returncode)
    finally:
        shutil.rmtree(tmp, ignore_errors=True)


def statement_sweep(prop, jobs=16):
    """Systematic sensitivity measure (thorough tier): every single-statement edit (sa/mutants.py) of the files the property is
    anchored in is applied to a scratch copy and the property's own check is run on it.  The result says how much of the anchored
    code the check is sensitive to at all; many unnoticed edits are behaviour-preserving or break the code outright (the tests
    catch those), so the figure is a measure of reach, not a verdict.  Never changes the exit code."""
    from rules.generic import anchor_files
    from .mutants import mutants_of
    ms = []
    for rel in sorted(set(anchor_files(prop))):
        full = os.path.join(REPO, rel)
        paths = []
        if rel.endswith('/') and os.path.isdir(full):
            paths = [os.path.join(rel, f) for f in sorted(os.listdir(full)) if f.endswith('.py')]
        elif os.path.isfile(full):
            paths = [rel]
        for q in paths:
            with open(os.path.join(REPO, q)) as fh:
                try:
                    ms.extend(mutants_of(q, fh.read()))
                except SyntaxError:
                    pass
    seen, uniq = set(), []
    for m in ms:
        k = (m['file'], m['start'], m['end'], m['repl'])
        if k not in seen:
            seen.add(k)
            uniq.append(m)
    with concurrent.futures.ThreadPoolExecutor(max_workers=jobs) as ex:
        res = [r for r in ex.map(_sweep_one, [(prop, m) for m in uniq]) if r is not None]
    noticed = [r for r in res if r['rc'] == 1]
    errors = [r for r in res if r['rc'] == 2]
    quiet = [r for r in res if r['rc'] == 0]
    by_file = {}
    for r in res:
        d = by_file.setdefault(r['file'], dict(edits=0, reported=0, analysis_error=0, unnoticed=0))
        d['edits'] += 1
        d['reported' if r['rc'] == 1 else 'analysis_error' if r['rc'] == 2 else 'unnoticed'] += 1
    print('AUDIT: property=%s statement sweep over %d anchored file(s): %d single-statement edits, %d reported as violation, %d as '
          'analysis error, %d unnoticed' % (prop, len(by_file), len(res), len(noticed), len(errors), len(quiet)))
    return dict(edits=len(res), reported=len(noticed), analysis_error=len(errors), unnoticed=len(quiet), by_file=by_file,
                unnoticed_sample=[dict(where='%s:%d' % (r['file'], r['line']), function=r['func'], kind=r['kind'], text=r['orig'])
                                  for r in quiet[:40]],
                note='edits: statement -> pass, branch test negated, break <-> continue, yield dropped, comprehension filter negated; '
                     'an unnoticed edit is not a missed violation by itself (many break the code outright or change nothing the property '
                     'speaks about)')


def audit_property(prop, jobs=16):
    entries = [e for e in load_corpus() + seeded_entries() + refactor_entries() if e['property'] == prop]
    res = run_all(entries, jobs)
    mut = [r for r in res if r.get('expect') == 'violation']
    ref = [r for r in res if r.get('expect') == 'silent']
    for r in res:
        if r['status'] != 'ok':
            print('AUDIT: %s %s %s' % (r['status'], r['id'], r.get('why') or 'rc=%s rules=%s' % (r.get('rc'), r.get('rules'))))
    print('AUDIT: property=%s mutants caught %d/%d, refactors silent %d/%d, skipped %d' % (
        prop, sum(r['status'] == 'ok' for r in mut), len(mut), sum(r['status'] == 'ok' for r in ref), len(ref),
        sum(r['status'] == 'skipped' for r in res)))
    try:
        sweep = statement_sweep(prop, jobs)
    except Exception as e:
        sweep = dict(error='%s: %s' % (type(e).__name__, e))
    return dict(statement_sweep=sweep, mutants_applied=len(mut), mutants_caught=sum(r['status'] == 'ok' for r in mut),
                refactors_applied=len(ref), refactors_silent=sum(r['status'] == 'ok' for r in ref),
                skipped=[r['id'] for r in res if r['status'] == 'skipped'],
                misses=[dict(id=r['id'], rc=r.get('rc'), rules=r.get('rules')) for r in res if r['status'] == 'MISS'])


def selftest(props=None, jobs=16):
    entries = load_corpus() + seeded_entries() + refactor_entries()
    if props:
        entries = [e for e in entries if e['property'] in props or e['id'] in props]
    res = run_all(entries, jobs)
    bad = 0
    for r in sorted(res, key=lambda r: r['id']):
        flag = r['status']
        if flag != 'ok':
            bad += 1
        print('%-7s %-45s %s expect=%s rc=%s rules=%s %s' % (flag, r['id'], r['property'], r.get('expect'), r.get('rc'),
                                                         ','.join(r.get('rules', [])), r.get('why', '')))
        if r.get('detail'):
            print('        ' + r['detail'].replace('\n', '\n        ')[-800:])
    print('selftest: %d entries, %d not ok' % (len(res), bad))
    return 1 if bad else 0
