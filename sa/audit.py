"""Sensitivity audit / self-test: apply single-edit mutants and behaviour-preserving refactors to scratch copies of
/repo/dataflows and run the checks on them.  Never changes the verdict of a MANIFEST command."""
import concurrent.futures
import json
import os
import shutil
import subprocess
import sys
import tempfile

VERIF = os.path.dirname(os.path.dirname(os.path.abspath(__file__)))
CORPUS = os.path.join(VERIF, 'selftest', 'corpus.json')
SEEDED = os.path.join(VERIF, 'seeded')
REPO = os.environ.get('VERIF_REPO', '/repo')


def load_corpus():
    if not os.path.exists(CORPUS):
        return []
    with open(CORPUS) as fh:
        return json.load(fh)['entries']


def seeded_entries():
    out = []
    if not os.path.isdir(SEEDED):
        return out
    for d in sorted(os.listdir(SEEDED)):
        mp = os.path.join(SEEDED, d, 'meta.json')
        pp = os.path.join(SEEDED, d, 'patch.diff')
        if os.path.exists(mp) and os.path.exists(pp):
            with open(mp) as fh:
                meta = json.load(fh)
            out.append(dict(id='seeded/' + d, property=meta['property'], patch=pp, expect='violation',
                            also=meta.get('also_breaks', [])))
    return out


def refactor_entries():
    """Behaviour-preserving refactorings written by independent sub-agents (selftest/refactors/<prop>/r*.diff): every check
    must stay silent on each of them."""
    import glob
    out = []
    base = os.path.join(VERIF, 'selftest', 'refactors')
    for p in sorted(glob.glob(os.path.join(base, '*', '*.diff'))):
        prop = os.path.basename(os.path.dirname(p))
        out.append(dict(id='refactor/%s/%s' % (prop, os.path.basename(p)[:-5]), property=prop, patch=p, expect='silent',
                        also=['C%02d' % i for i in range(1, 21) if 'C%02d' % i != prop], all_silent=True))
    return out


def _apply(entry, root):
    if 'patch' in entry:
        r = subprocess.run(['patch', '-p1', '-s', '-d', root, '-i', entry['patch']], capture_output=True, text=True)
        if r.returncode != 0:
            return 'patch does not apply: ' + (r.stdout + r.stderr)[:200]
        return None
    edits = entry.get('edits') or [dict(file=entry['file'], find=entry['find'], replace=entry['replace'])]
    for ed in edits:
        p = os.path.join(root, ed['file'])
        if not os.path.exists(p):
            return 'file missing: ' + ed['file']
        with open(p) as fh:
            s = fh.read()
        if s.count(ed['find']) != 1:
            return 'anchor text occurs %d times in %s' % (s.count(ed['find']), ed['file'])
        with open(p, 'w') as fh:
            fh.write(s.replace(ed['find'], ed['replace']))
    return None


def run_entry(entry, tier='quick'):
    tmp = tempfile.mkdtemp(prefix='verif-audit-')
    try:
        shutil.copytree(os.path.join(REPO, 'dataflows'), os.path.join(tmp, 'dataflows'),
                        ignore=shutil.ignore_patterns('__pycache__'))
        err = _apply(entry, tmp)
        if err:
            return dict(id=entry['id'], property=entry['property'], status='skipped', why=err)
        # must still compile
        r = subprocess.run([sys.executable, '-B', '-m', 'compileall', '-q', os.path.join(tmp, 'dataflows')],
                           capture_output=True, text=True)
        env = dict(os.environ, VERIF_REPO=tmp, VERIF_EVIDENCE_DIR=os.path.join(tmp, 'ev'), VERIF_NO_AUDIT='1')
        props = [entry['property']] + list(entry.get('also', []))
        results = {}
        for p in props:
            r = subprocess.run([sys.executable, '-B', '-m', 'sa.cli', p, '--tier', tier], cwd=VERIF, env=env,
                               capture_output=True, text=True)
            rules = sorted(set(ln.split()[0] for ln in r.stdout.splitlines()
                               if ln.startswith('  ') and not ln.startswith('   ') and len(ln.split()) > 3 and ln.split()[2] == 'in'))
            results[p] = dict(rc=r.returncode, rules=rules, out=r.stdout[-1500:] if r.returncode == 2 else '')
        main = results[entry['property']]
        if entry['expect'] == 'violation':
            ok = main['rc'] == 1
            if ok and entry.get('rule'):
                ok = any(x.startswith(entry['rule']) for x in main['rules'])
        else:
            ok = main['rc'] == 0
            if entry.get('all_silent'):
                ok = all(v['rc'] == 0 for v in results.values())
                main = dict(main, rules=sorted(set(r for v in results.values() for r in v['rules'])),
                            rc=max(v['rc'] for v in results.values()),
                            out=' | '.join('%s rc=%d' % (k, v['rc']) for k, v in results.items() if v['rc']))
        return dict(id=entry['id'], property=entry['property'], expect=entry['expect'], status='ok' if ok else 'MISS',
                    rc=main['rc'], rules=main['rules'], detail=main['out'],
                    also={k: v['rc'] for k, v in results.items() if k != entry['property']})
    finally:
        shutil.rmtree(tmp, ignore_errors=True)


def run_all(entries, jobs=16, tier='quick'):
    with concurrent.futures.ThreadPoolExecutor(max_workers=jobs) as ex:
        return list(ex.map(lambda e: run_entry(e, tier), entries))


def audit_property(prop, jobs=16):
    entries = [e for e in load_corpus() + seeded_entries() + refactor_entries() if e['property'] == prop]
    res = run_all(entries, jobs)
    mut = [r for r in res if r.get('expect') == 'violation']
    ref = [r for r in res if r.get('expect') == 'silent']
    for r in res:
        if r['status'] != 'ok':
            print('AUDIT: %s %s %s' % (r['status'], r['id'], r.get('why') or 'rc=%s rules=%s' % (r.get('rc'), r.get('rules'))))
    print('AUDIT: property=%s mutants caught %d/%d, refactors silent %d/%d, skipped %d' % (
        prop, sum(r['status'] == 'ok' for r in mut), len(mut), sum(r['status'] == 'ok' for r in ref), len(ref),
        sum(r['status'] == 'skipped' for r in res)))
    return dict(mutants_applied=len(mut), mutants_caught=sum(r['status'] == 'ok' for r in mut),
                refactors_applied=len(ref), refactors_silent=sum(r['status'] == 'ok' for r in ref),
                skipped=[r['id'] for r in res if r['status'] == 'skipped'],
                misses=[dict(id=r['id'], rc=r.get('rc'), rules=r.get('rules')) for r in res if r['status'] == 'MISS'])


def selftest(props=None, jobs=16):
    entries = load_corpus() + seeded_entries() + refactor_entries()
    if props:
        entries = [e for e in entries if e['property'] in props or e['id'] in props]
    res = run_all(entries, jobs)
    bad = 0
    for r in sorted(res, key=lambda r: r['id']):
        flag = r['status']
        if flag != 'ok':
            bad += 1
        print('%-7s %-45s %s expect=%s rc=%s rules=%s %s' % (flag, r['id'], r['property'], r.get('expect'), r.get('rc'),
                                                         ','.join(r.get('rules', [])), r.get('why', '')))
        if r.get('detail'):
            print('        ' + r['detail'].replace('\n', '\n        ')[-800:])
    print('selftest: %d entries, %d not ok' % (len(res), bad))
    return 1 if bad else 0
