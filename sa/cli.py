"""CLI: ./check <property id> [--tier quick|thorough] [--replay file] | ./check --all | ./check --selftest [ids]"""
import argparse
import importlib
import json
import os
import sys
import traceback

from .loader import AnalysisError, Repo
from .report import Run
from .resolve import Resolver


class Ctx:
    def __init__(self, prop, tier, seed):
        self.repo = Repo()
        self.res = Resolver(self.repo)
        self.run = Run(prop, tier, seed)
        self.tier = tier
        self.thorough = tier == 'thorough'
        self.run.analysed.update(self.repo.stats())
        self.run.analysed['repo_root'] = self.repo.root

    def N(self, fi, depth=2, keep=()):
        """Normalised view of a function: module-local helpers inlined (see sa/normalize.py); `keep` = qualified names of
        helpers that are analysed in their own right and must stay calls."""
        from .normalize import normalized
        return normalized(self, fi, depth, True, tuple(keep))


def attach_owners(ctx):
    """A finding in a private module-level helper (`module:_helper`) is also known by the public top-level definition of the same
    module that uses it, when there is exactly one: moving a nested function out to module level does not change whose defect it is."""
    import ast
    for f in ctx.run.findings:
        if getattr(f, 'owners', None) is not None:
            continue
        f.owners = []
        try:
            fi = ctx.repo.func(f.function, None)
        except Exception:
            fi = None
        if fi is None or fi.parent is not None or fi.cls is not None or not fi.name.startswith('_') or fi.name.startswith('__'):
            continue
        users = []
        for st in fi.module.tree.body:
            if isinstance(st, (ast.FunctionDef, ast.AsyncFunctionDef, ast.ClassDef)) and st is not fi.node and \
                    any(isinstance(c, ast.Name) and c.id == fi.name and isinstance(c.ctx, ast.Load) for c in ast.walk(st)):
                users.append(st.name)
        public = [nm for nm in users if not nm.startswith('_')]
        if len(users) == 1 and len(public) == 1:
            f.owners = ['%s:%s' % (fi.module.name, public[0])]


def run_check(prop, tier, seed, audit=True):
    try:
        mod = importlib.import_module('checks.%s' % prop)
    except Exception as e:
        traceback.print_exc()
        print('ANALYSIS-ERROR property=%s check module cannot be loaded: %s' % (prop, e))
        return 2
    try:
        ctx = Ctx(prop, tier, seed)
        from rules.generic import run_generic
        run_generic(ctx, prop)
        explanation, assumptions = mod.check(ctx)
        from .report import load_known, match_known
        known = load_known()
        attach_owners(ctx)
        unlisted = [f for f in ctx.run.findings if match_known(known, f) is None]
        if ctx.thorough and audit and not unlisted and os.environ.get('VERIF_NO_AUDIT') != '1':
            try:
                from . import audit as auditmod
                ctx.run.audit = auditmod.audit_property(prop)
            except Exception as e:   # the audit never changes the verdict
                ctx.run.audit = dict(error='%s: %s' % (type(e).__name__, e))
        return ctx.run.finish(explanation, assumptions)
    except AnalysisError as e:
        # a violation established before the analysis lost an anchor stands: the construct it names was decided on its own, and
        # the lost anchor is most often part of the same change (an error must not mask a violation, as for floors)
        try:
            from .report import load_known, match_known
            known = load_known()
            if 'ctx' in locals():
                attach_owners(ctx)
            if 'ctx' in locals() and any(match_known(known, f) is None for f in ctx.run.findings):
                print('ANALYSIS-ERROR (after violations were found; reporting those) property=%s %s' % (prop, e))
                ctx.run.note('analysis stopped early: %s' % e)
                return ctx.run.finish('analysis stopped at an analysis error after the violations listed were established: %s' % e, [])
        except Exception:
            traceback.print_exc()
        print('ANALYSIS-ERROR property=%s %s' % (prop, e))
        return 2
    except Exception:
        traceback.print_exc()
        print('ANALYSIS-ERROR property=%s internal exception in the analyser (see traceback)' % prop)
        return 2


def main(argv=None):
    ap = argparse.ArgumentParser()
    ap.add_argument('prop', nargs='*')
    ap.add_argument('--tier', default=os.environ.get('VERIF_TIER', 'quick'), choices=['quick', 'thorough'])
    ap.add_argument('--replay')
    ap.add_argument('--all', action='store_true')
    ap.add_argument('--selftest', action='store_true')
    ap.add_argument('--jobs', type=int, default=16)
    a = ap.parse_args(argv)
    seed = int(os.environ.get('VERIF_SEED', '0') or 0)
    if a.replay:
        with open(a.replay) as fh:
            f = json.load(fh)
        print('replaying finding: %s %s in %s' % (f['rule'], f['where'], f['function']))
        return run_check(f['property'], a.tier, seed, audit=False)
    if a.selftest:
        from . import audit as auditmod
        return auditmod.selftest(a.prop or None, jobs=a.jobs)
    props = a.prop
    if a.all:
        props = ['C%02d' % i for i in range(1, 21)]
    if not props:
        ap.error('property id required')
    rc = 0
    for p in props:
        r = run_check(p, a.tier, seed)
        rc = max(rc, r)
    return rc


if __name__ == '__main__':
    sys.exit(main())
