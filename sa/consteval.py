"""Tiny partial evaluator: folds a pure function over constant arguments (no imports, no calls into the repository).

Supports what guards of small table-driven helpers use: constants, names, list/tuple/dict literals, comparisons
(== != in not in is is-not), boolean operators, len(), subscripts, attribute-free list comprehensions with an `if`, .get()."""
import ast


class _Unknown:
    def __repr__(self):
        return 'UNKNOWN'


UNKNOWN = _Unknown()


class _Return(Exception):
    def __init__(self, v):
        self.v = v


def ev(e, env):
    if isinstance(e, ast.Constant):
        return e.value
    if isinstance(e, ast.Name):
        if e.id in env:
            return env[e.id]
        if e.id in env.get('__consts__', {}):
            return env['__consts__'][e.id]
        raise KeyError(e.id)
    if isinstance(e, (ast.Tuple, ast.List)):
        v = [ev(x, env) for x in e.elts]
        return tuple(v) if isinstance(e, ast.Tuple) else v
    if isinstance(e, ast.Dict):
        return {ev(k, env): ev(v, env) for k, v in zip(e.keys, e.values)}
    if isinstance(e, ast.BoolOp):
        if isinstance(e.op, ast.And):
            r = True
            for v in e.values:
                r = ev(v, env)
                if not r:
                    return r
            return r
        r = False
        for v in e.values:
            r = ev(v, env)
            if r:
                return r
        return r
    if isinstance(e, ast.UnaryOp) and isinstance(e.op, ast.Not):
        return not ev(e.operand, env)
    if isinstance(e, ast.Compare):
        left = ev(e.left, env)
        for op, c in zip(e.ops, e.comparators):
            right = ev(c, env)
            if isinstance(op, ast.Eq):
                ok = left == right
            elif isinstance(op, ast.NotEq):
                ok = left != right
            elif isinstance(op, ast.In):
                ok = left in right
            elif isinstance(op, ast.NotIn):
                ok = left not in right
            elif isinstance(op, ast.Is):
                ok = left is right
            elif isinstance(op, ast.IsNot):
                ok = left is not right
            elif isinstance(op, ast.Gt):
                ok = left > right
            elif isinstance(op, ast.Lt):
                ok = left < right
            elif isinstance(op, ast.GtE):
                ok = left >= right
            elif isinstance(op, ast.LtE):
                ok = left <= right
            else:
                raise KeyError('op')
            if not ok:
                return False
            left = right
        return True
    if isinstance(e, ast.Subscript):
        return ev(e.value, env)[ev(e.slice, env)]
    if isinstance(e, ast.Set):
        return set(ev(x, env) for x in e.elts)
    if isinstance(e, ast.Call):
        if isinstance(e.func, ast.Name) and e.func.id == 'len' and len(e.args) == 1:
            return len(ev(e.args[0], env))
        if isinstance(e.func, ast.Name) and e.func.id in env.get('__funcs__', {}):
            fn = env['__funcs__'][e.func.id]
            params = [a.arg for a in fn.args.args]
            args = [ev(a, env) for a in e.args]
            sub = dict(zip(params, args))
            for k in e.keywords:
                sub[k.arg] = ev(k.value, env)
            for kk in ('__funcs__', '__consts__'):
                if kk in env:
                    sub[kk] = env[kk]
            for k, v in env.get('__consts__', {}).items():
                sub.setdefault(k, v)
            r = fold_function(fn, sub)
            if r is UNKNOWN:
                raise KeyError('helper')
            return r
        if isinstance(e.func, ast.Name) and e.func.id in ('set', 'frozenset', 'tuple', 'list') and len(e.args) == 1:
            return {'set': set, 'frozenset': frozenset, 'tuple': tuple, 'list': list}[e.func.id](ev(e.args[0], env))
        if isinstance(e.func, ast.Attribute) and e.func.attr == 'get':
            base = ev(e.func.value, env)
            args = [ev(a, env) for a in e.args]
            return base.get(*args)
        raise KeyError('call')
    if isinstance(e, ast.ListComp) and len(e.generators) == 1 and isinstance(e.generators[0].target, ast.Name):
        g = e.generators[0]
        out = []
        for x in ev(g.iter, env):
            e2 = dict(env)
            e2[g.target.id] = x
            if all(ev(c, e2) for c in g.ifs):
                out.append(ev(e.elt, e2))
        return out
    if isinstance(e, ast.IfExp):
        return ev(e.body, env) if ev(e.test, env) else ev(e.orelse, env)
    raise KeyError(type(e).__name__)


class _Break(Exception):
    pass


class _Continue(Exception):
    pass


def _block(stmts, env):
    for st in stmts:
        if isinstance(st, ast.For) and isinstance(st.target, ast.Name) and not st.orelse:
            n = 0
            for x in list(ev(st.iter, env)):
                n += 1
                if n > 1000:
                    raise KeyError('loop bound')
                env[st.target.id] = x
                try:
                    _block(st.body, env)
                except _Continue:
                    continue
                except _Break:
                    break
            continue
        if isinstance(st, ast.Continue):
            raise _Continue()
        if isinstance(st, ast.Break):
            raise _Break()
        if isinstance(st, ast.Expr) and isinstance(st.value, ast.Call) and isinstance(st.value.func, ast.Attribute) and \
                st.value.func.attr == 'append' and isinstance(st.value.func.value, ast.Name) and len(st.value.args) == 1 and \
                isinstance(env.get(st.value.func.value.id), list):
            env[st.value.func.value.id].append(ev(st.value.args[0], env))
            continue
        if isinstance(st, ast.Return):
            raise _Return(ev(st.value, env) if st.value is not None else None)
        elif isinstance(st, ast.If):
            _block(st.body if ev(st.test, env) else st.orelse, env)
        elif isinstance(st, ast.Assign) and len(st.targets) == 1 and isinstance(st.targets[0], ast.Name):
            env[st.targets[0].id] = ev(st.value, env)
        elif isinstance(st, ast.Expr) and isinstance(st.value, ast.Constant):
            continue
        else:
            raise KeyError('stmt ' + type(st).__name__)


def fold_function(fnode, args):
    env = dict(args)
    try:
        _block(fnode.body, env)
    except _Return as r:
        return r.v
    except (KeyError, TypeError, IndexError, AttributeError, _Break, _Continue):
        return UNKNOWN
    return None


fold_function.UNKNOWN = UNKNOWN
