"""Flow-insensitive def-use / dependence facts for one function (closures included).

`Facts(resolver, fi).roots(expr)` = the set of *root* names an expression may depend on, following
assignments, augmented assignments, loop targets, with-targets, subscript / attribute stores and the
usual mutators transitively.  Names are plain identifiers; `self.x` style attributes are tracked as
pseudo-names 'self.x'.  Over-approximate ("may depend"), which is the safe direction for the rules
that use it: they ask either "does X reach sink S" (report if it may) or "is Y derived from X at all"
(report only if there is no dependence whatsoever).
"""
import ast

from .loader import own_nodes, _target_names

MUTATORS = {'append', 'extend', 'add', 'update', 'setdefault', 'insert', 'appendleft', 'put'}


def pseudo(expr):
    """'name' for Name, 'self.x' for self.x, else None."""
    if isinstance(expr, ast.Name):
        return expr.id
    if isinstance(expr, ast.Attribute) and isinstance(expr.value, ast.Name) and expr.value.id in ('self', 'cls'):
        return '%s.%s' % (expr.value.id, expr.attr)
    return None


def base_name(expr):
    """Innermost name of a subscript/attribute chain: a.b['c'].d -> pseudo(a.b) if a is self else 'a'."""
    e = expr
    while True:
        p = pseudo(e)
        if p is not None:
            return p
        if isinstance(e, (ast.Subscript, ast.Attribute)):
            e = e.value
        elif isinstance(e, ast.Call):
            # x.get('a') / x.setdefault('a', {}) return parts of x
            if isinstance(e.func, ast.Attribute) and e.func.attr in ('get', 'setdefault', 'pop', 'copy'):
                e = e.func.value
            else:
                return None
        elif isinstance(e, ast.Starred):
            e = e.value
        else:
            return None


def names_in(expr, include_self_attrs=True):
    out = set()
    for n in ast.walk(expr):
        if isinstance(n, ast.Name):
            out.add(n.id)
        elif include_self_attrs and isinstance(n, ast.Attribute):
            p = pseudo(n)
            if p:
                out.add(p)
    return out


class Facts:
    def __init__(self, fi, include_nested=True):
        self.fi = fi
        self.defs = {}      # name -> list of source exprs (values that flow into name)
        self.assigns = {}   # name -> values bound to the name itself (assignment, loop / with / comprehension target)
        self.stores = {}    # name -> list of (target expr, value expr, stmt)  [subscript/attr stores & mutator calls]
        self._collect(fi.node, include_nested)
        self._propagate_part_stores()
        self._cache = {}

    def _add(self, name, expr):
        if name is None or expr is None:
            return
        self.defs.setdefault(name, []).append(expr)

    def _assign_target(self, t, value, stmt):
        if isinstance(t, (ast.Tuple, ast.List)):
            if isinstance(value, (ast.Tuple, ast.List)) and len(value.elts) == len(t.elts):
                for a, b in zip(t.elts, value.elts):
                    self._assign_target(a, b, stmt)
            else:
                for a in t.elts:
                    self._assign_target(a, value, stmt)
            return
        if isinstance(t, ast.Starred):
            self._assign_target(t.value, value, stmt)
            return
        p = pseudo(t)
        if p is not None:
            self._add(p, value)
            if value is not None:
                self.assigns.setdefault(p, []).append(value)
            return
        b = base_name(t)
        if b is not None:
            self._add(b, value)
            self.stores.setdefault(b, []).append((t, value, stmt))
            # the subscript key also influences the object
            if isinstance(t, ast.Subscript):
                self._add(b, t.slice)

    def _collect(self, fnode, include_nested):
        body_nodes = ast.walk(fnode) if include_nested else own_nodes(fnode)
        for n in body_nodes:
            if isinstance(n, ast.Assign):
                for t in n.targets:
                    self._assign_target(t, n.value, n)
            elif isinstance(n, ast.AnnAssign) and n.value is not None:
                self._assign_target(n.target, n.value, n)
            elif isinstance(n, ast.AugAssign):
                self._assign_target(n.target, n.value, n)
            elif isinstance(n, (ast.For, ast.AsyncFor)):
                self._assign_target(n.target, n.iter, n)
            elif isinstance(n, ast.comprehension):
                self._assign_target(n.target, n.iter, n)
            elif isinstance(n, (ast.With, ast.AsyncWith)):
                for it in n.items:
                    if it.optional_vars is not None:
                        self._assign_target(it.optional_vars, it.context_expr, n)
            elif isinstance(n, ast.NamedExpr):
                self._assign_target(n.target, n.value, n)
            elif isinstance(n, ast.Call) and isinstance(n.func, ast.Attribute) and n.func.attr in MUTATORS:
                b = base_name(n.func.value)
                if b is not None:
                    for a in list(n.args) + [k.value for k in n.keywords]:
                        self._add(b, a)
                        self.stores.setdefault(b, []).append((n.func.value, a, n))

    def _propagate_part_stores(self):
        """`c = x.setdefault(k, {})` / `c = x[k]` / `c = x.get(k)` make c a part of x: what is stored into c also flows into x."""
        for _ in range(3):
            changed = False
            for nm, vals in list(self.assigns.items()):
                for v in vals:
                    if isinstance(v, ast.Name):
                        continue
                    owner = base_name(v)
                    if owner is None or owner == nm:
                        continue
                    for st in self.stores.get(nm, []):
                        if st not in self.stores.get(owner, []):
                            self.stores.setdefault(owner, []).append(st)
                            self._add(owner, st[1])
                            changed = True
            if not changed:
                break

    def roots(self, expr, stop=None):
        """Transitive closure of names `expr` may depend on. `stop`: names not expanded further."""
        stop = stop or set()
        seen = set()
        work = list(names_in(expr))
        while work:
            nm = work.pop()
            if nm in seen:
                continue
            seen.add(nm)
            if nm in stop:
                continue
            for src in self.defs.get(nm, []):
                for x in names_in(src):
                    if x not in seen:
                        work.append(x)
        return seen

    def depends_on(self, expr, name, stop=None):
        return name in self.roots(expr, stop)

    def values_of(self, name):
        return self.defs.get(name, [])

    def single_value(self, name):
        v = self.defs.get(name, [])
        return v[0] if len(v) == 1 else None
