"""Three-valued abstract evaluation of type-test guards over a finite set of *value kinds*.

A kind says what the standard predicates answer for a family of run-time values (isinstance against a few named classes,
callable(), isfunction(), truthiness, emptiness and the kind of its elements).  `kev` evaluates a guard expression on an
environment {name: Kind} and answers True / False / None (cannot tell).  Nothing is executed; helper predicates of the
repository whose body is a single `return <expr>` are evaluated the same way.  Used by R1k (dispatch by kind of link).
"""
import ast


class Kind:
    def __init__(self, name, classes=(), callable_=False, function=False, truthy=True, empty=None, elem=None, none=False):
        self.name = name
        self.classes = set(classes) | {'object'}
        self.callable = callable_
        self.function = function
        self.truthy = truthy     # True / False / None
        self.empty = empty       # True / False / None (not a sized container)
        self.elem = elem         # Kind of the elements of a non-empty homogeneous container, or None
        self.none = none

    def __repr__(self):
        return self.name


# the classes a kind answers for; an isinstance test against any other class is "cannot tell"
VOCAB = {'Flow', 'DataStreamProcessor', 'Iterable', 'Iterator', 'Generator', 'list', 'tuple', 'dict', 'str', 'int',
         'Mapping', 'Sequence', 'Callable', 'object', 'set', 'bytes', 'float', 'bool', 'type(None)', 'NoneType',
         'FunctionType', 'LambdaType', 'MethodType', 'partial'}

ROW = Kind('a row (dict)', ['dict', 'Mapping', 'Iterable'], truthy=True, empty=False)


def link_kinds():
    return [
        Kind('a nested Flow', ['Flow']),
        Kind('a processor instance', ['DataStreamProcessor', 'Callable'], callable_=True),
        Kind('a plain function / lambda', ['Callable', 'FunctionType', 'LambdaType'], callable_=True, function=True),
        Kind('a bound method', ['Callable', 'MethodType'], callable_=True),
        Kind('a functools.partial / callable object', ['Callable', 'partial'], callable_=True),
        Kind('an empty list of rows', ['list', 'Iterable', 'Sequence'], truthy=False, empty=True),
        Kind('an empty tuple of rows', ['tuple', 'Iterable', 'Sequence'], truthy=False, empty=True),
        Kind('a non-empty list of rows', ['list', 'Iterable', 'Sequence'], truthy=True, empty=False, elem=ROW),
        Kind('a non-empty tuple of rows', ['tuple', 'Iterable', 'Sequence'], truthy=True, empty=False, elem=ROW),
        Kind('a generator of rows', ['Iterable', 'Iterator', 'Generator'], truthy=True, elem=ROW),
        Kind('None', ['NoneType', 'type(None)'], truthy=False, none=True),
        Kind('an integer', ['int'], truthy=None),
    ]


def _class_names(e):
    """Names of the classes in the second argument of isinstance: Name / dotted name / tuple of those; None = cannot tell."""
    if isinstance(e, ast.Tuple):
        out = []
        for x in e.elts:
            r = _class_names(x)
            if r is None:
                return None
            out.extend(r)
        return out
    if isinstance(e, ast.Name):
        return [e.id]
    if isinstance(e, ast.Attribute):
        return [e.attr]
    if isinstance(e, ast.Call) and isinstance(e.func, ast.Name) and e.func.id == 'type' and len(e.args) == 1 and \
            isinstance(e.args[0], ast.Constant) and e.args[0].value is None:
        return ['NoneType']
    return None


def _not(v):
    return None if v is None else (not v)


class KindEval:
    def __init__(self, resolve_helper=None, consts=None):
        """resolve_helper(func_expr) -> ast.FunctionDef/Lambda of a repository predicate, or None.
        consts: name -> ast expression of module / class level constants (tuples of classes given a name)."""
        self.resolve_helper = resolve_helper or (lambda f: None)
        self.consts = consts or {}
        self.depth = 0

    def kind_of(self, e, env):
        if isinstance(e, ast.Name) and isinstance(env.get(e.id), Kind):
            return env[e.id]
        return None

    def kev(self, e, env):
        if isinstance(e, ast.Constant):
            return bool(e.value)
        if isinstance(e, ast.Name):
            k = env.get(e.id)
            if isinstance(k, Kind):
                return k.truthy
            if isinstance(k, bool):
                return k
            return None
        if isinstance(e, ast.UnaryOp) and isinstance(e.op, ast.Not):
            return _not(self.kev(e.operand, env))
        if isinstance(e, ast.BoolOp):
            vals = [self.kev(v, env) for v in e.values]
            if isinstance(e.op, ast.And):
                if any(v is False for v in vals):
                    return False
                return True if all(v is True for v in vals) else None
            if any(v is True for v in vals):
                return True
            return False if all(v is False for v in vals) else None
        if isinstance(e, ast.Compare) and len(e.ops) == 1:
            k = self.kind_of(e.left, env)
            c = e.comparators[0]
            if k is not None and isinstance(c, ast.Constant) and c.value is None:
                if isinstance(e.ops[0], ast.Is):
                    return k.none
                if isinstance(e.ops[0], ast.IsNot):
                    return not k.none
            # len(x) <op> n
            if isinstance(e.left, ast.Call) and isinstance(e.left.func, ast.Name) and e.left.func.id == 'len' and \
                    len(e.left.args) == 1 and isinstance(c, ast.Constant) and isinstance(c.value, int):
                k = self.kind_of(e.left.args[0], env)
                if k is not None and k.empty is not None:
                    n, op = c.value, e.ops[0]
                    if k.empty:
                        ln = 0
                        return {ast.Eq: ln == n, ast.NotEq: ln != n, ast.Gt: ln > n, ast.GtE: ln >= n, ast.Lt: ln < n,
                                ast.LtE: ln <= n}.get(type(op))
                    # non-empty: only the comparisons with 0 / 1 that non-emptiness settles
                    if isinstance(op, ast.Eq) and n == 0:
                        return False
                    if isinstance(op, (ast.NotEq, ast.Gt)) and n == 0:
                        return True
                    if isinstance(op, ast.GtE) and n == 1:
                        return True
                    if isinstance(op, ast.Lt) and n == 1:
                        return False
            return None
        if isinstance(e, ast.Call):
            f = e.func
            fname = f.id if isinstance(f, ast.Name) else (f.attr if isinstance(f, ast.Attribute) else None)
            if fname == 'isinstance' and len(e.args) == 2:
                k = self.kind_of(e.args[0], env)
                cls = e.args[1]
                if isinstance(cls, ast.Name) and cls.id in self.consts:
                    cls = self.consts[cls.id]
                names = _class_names(cls)
                if k is None or names is None:
                    return None
                if any(n in k.classes for n in names):
                    return True
                return False if all(n in VOCAB for n in names) else None
            if fname == 'callable' and len(e.args) == 1:
                k = self.kind_of(e.args[0], env)
                return None if k is None else k.callable
            if fname in ('isfunction', 'isroutine') and len(e.args) == 1:
                k = self.kind_of(e.args[0], env)
                return None if k is None else k.function
            if fname == 'hasattr' and len(e.args) == 2 and isinstance(e.args[1], ast.Constant):
                k = self.kind_of(e.args[0], env)
                if k is not None and e.args[1].value == '__call__':
                    return k.callable
                if k is not None and e.args[1].value == '__iter__':
                    return 'Iterable' in k.classes
                return None
            if fname == 'bool' and len(e.args) == 1:
                return self.kev(e.args[0], env)
            if fname in ('all', 'any') and len(e.args) == 1:
                return self._quant(fname, e.args[0], env)
            # a repository predicate with a one-expression body
            h = self.resolve_helper(f)
            if h is not None and self.depth < 3 and not e.keywords:
                params = [a.arg for a in h.args.args]
                if params and params[0] in ('self', 'cls') and isinstance(f, ast.Attribute):
                    params = params[1:]
                body = h.body if isinstance(h, ast.Lambda) else None
                if body is None:
                    stmts = [s for s in h.body if not (isinstance(s, ast.Expr) and isinstance(s.value, ast.Constant))]
                    if len(stmts) == 1 and isinstance(stmts[0], ast.Return) and stmts[0].value is not None:
                        body = stmts[0].value
                if body is not None and len(params) == len(e.args):
                    sub = {}
                    for p, a in zip(params, e.args):
                        k = self.kind_of(a, env)
                        if k is not None:
                            sub[p] = k
                    self.depth += 1
                    try:
                        return self.kev(body, sub)
                    finally:
                        self.depth -= 1
            return None
        return None

    def _quant(self, which, arg, env):
        """all(...) / any(...) over the elements of a value of known kind."""
        coll = pred = var = None
        if isinstance(arg, ast.Call) and isinstance(arg.func, ast.Name) and arg.func.id == 'map' and len(arg.args) == 2:
            coll = self.kind_of(arg.args[1], env)
            fn = arg.args[0]
            var = '__x'
            pred = ast.Call(func=fn, args=[ast.Name(id='__x', ctx=ast.Load())], keywords=[])
            if isinstance(fn, ast.Lambda) and len(fn.args.args) == 1:
                var, pred = fn.args.args[0].arg, fn.body
        elif isinstance(arg, (ast.GeneratorExp, ast.ListComp)) and len(arg.generators) == 1 and \
                isinstance(arg.generators[0].target, ast.Name) and not arg.generators[0].ifs:
            coll = self.kind_of(arg.generators[0].iter, env)
            var, pred = arg.generators[0].target.id, arg.elt
        if coll is None:
            return None
        if coll.empty is True:
            return which == 'all'          # vacuous truth / falsity over an empty collection
        if coll.elem is None:
            return None
        return self.kev(pred, dict(env, **{var: coll.elem}))
