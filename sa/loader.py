"""Program model: parse /repo's working tree, build module / class / function tables.

Pure stdlib.  Never imports or executes repository code.
"""
import ast
import hashlib
import os

REPO = os.environ.get('VERIF_REPO', '/repo')
PKG = 'dataflows'

# files that are not Python although they end in .py (Jinja template)
NOT_PYTHON = {'dataflows/templates/main.tpl.py'}


class AnalysisError(Exception):
    """The analyser could not do its job (anchor vanished, parse failure, floor not met).

    Turned into exit code 2 / ANALYSIS-ERROR, never into a pass."""


class Module:
    def __init__(self, name, relpath, source, tree, is_pkg):
        self.name = name
        self.relpath = relpath
        self.source = source
        self.tree = tree
        self.is_pkg = is_pkg
        self.digest = hashlib.sha256(source.encode('utf-8')).hexdigest()[:16]
        self.imports = {}      # local name -> ('module', modname) | ('symbol', modname, sym) | ('external', dotted)
        self.star_imports = []  # modnames
        self.defs = {}         # top-level name -> FunctionDef | ClassDef | ('assign', [value nodes])

    def __repr__(self):
        return '<Module %s>' % self.name


class FuncInfo:
    def __init__(self, node, module, qualname, parent, cls):
        self.node = node
        self.module = module
        self.qualname = qualname
        self.parent = parent      # FuncInfo | ClassInfo | None
        self.cls = cls            # ClassInfo if this is a method (direct child of a class)
        self.name = getattr(node, 'name', '<lambda>')

    @property
    def params(self):
        a = self.node.args
        return [x.arg for x in a.posonlyargs + a.args]

    @property
    def all_params(self):
        a = self.node.args
        out = [x.arg for x in a.posonlyargs + a.args + a.kwonlyargs]
        if a.vararg:
            out.append(a.vararg.arg)
        if a.kwarg:
            out.append(a.kwarg.arg)
        return out

    @property
    def is_generator(self):
        return any(isinstance(n, (ast.Yield, ast.YieldFrom)) for n in own_nodes(self.node))

    @property
    def where(self):
        return '%s:%d' % (self.module.relpath, self.node.lineno)

    def __repr__(self):
        return '<Func %s>' % self.qualname


class ClassInfo:
    def __init__(self, node, module, qualname, parent):
        self.node = node
        self.module = module
        self.qualname = qualname
        self.parent = parent
        self.name = node.name
        self.methods = {}     # name -> FuncInfo
        self.attrs = {}       # class-level name -> value node
        self.bases = []       # resolved later: ClassInfo | ('external', dotted)
        self.mro = []         # list of ClassInfo (repo classes only), self first

    @property
    def where(self):
        return '%s:%d' % (self.module.relpath, self.node.lineno)

    def __repr__(self):
        return '<Class %s>' % self.qualname


def own_nodes(func_node):
    """Walk the nodes that belong to this function body itself (not nested defs/lambdas/classes).

    Generator expressions and comprehensions are *included* (they run in the function's
    dynamic extent) but a `yield` cannot legally occur in them anyway."""
    body = func_node.body if isinstance(func_node.body, list) else [func_node.body]
    stack = list(reversed(body))
    while stack:
        n = stack.pop()
        yield n
        if isinstance(n, (ast.FunctionDef, ast.AsyncFunctionDef, ast.Lambda, ast.ClassDef)):
            continue
        for c in reversed(list(ast.iter_child_nodes(n))):
            if isinstance(c, (ast.FunctionDef, ast.AsyncFunctionDef, ast.Lambda, ast.ClassDef)):
                # the def statement itself is visible (name binding, decorators, defaults) but not its body
                yield c
                continue
            stack.append(c)


def set_parents(tree):
    for node in ast.walk(tree):
        for child in ast.iter_child_nodes(node):
            child._parent = node
    tree._parent = None


def parent_chain(node):
    n = getattr(node, '_parent', None)
    while n is not None:
        yield n
        n = getattr(n, '_parent', None)


class Repo:
    """All modules of the package, parsed from the working tree at construction time."""

    def __init__(self, root=None):
        self.root = root or REPO
        self.modules = {}
        self.functions = {}    # qualname -> FuncInfo
        self.classes = {}      # qualname -> ClassInfo
        self.func_of_node = {}  # id(node) -> FuncInfo
        self.class_of_node = {}
        self.skipped = []
        self._load()

    # ------------------------------------------------------------------ loading
    def _load(self):
        base = os.path.join(self.root, PKG)
        if not os.path.isdir(base):
            raise AnalysisError('package directory %s not found' % base)
        for dirpath, dirnames, filenames in os.walk(base):
            dirnames[:] = sorted(d for d in dirnames if d != '__pycache__')
            for fn in sorted(filenames):
                if not fn.endswith('.py'):
                    continue
                full = os.path.join(dirpath, fn)
                rel = os.path.relpath(full, self.root)
                if rel in NOT_PYTHON:
                    self.skipped.append((rel, 'Jinja template, not Python'))
                    continue
                with open(full, encoding='utf-8') as f:
                    src = f.read()
                try:
                    tree = ast.parse(src, filename=rel)
                except SyntaxError as e:
                    raise AnalysisError('cannot parse %s: %s' % (rel, e))
                if os.environ.get('VERIF_NO_CANON') != '1':
                    from .normalize import canon
                    tree = canon(tree)
                set_parents(tree)
                parts = rel[:-3].split(os.sep)
                is_pkg = parts[-1] == '__init__'
                if is_pkg:
                    parts = parts[:-1]
                name = '.'.join(parts)
                m = Module(name, rel, src, tree, is_pkg)
                self.modules[name] = m
        for m in self.modules.values():
            self._index_module(m)

    def _index_module(self, m):
        def visit(node, qual, parent, cls):
            for child in ast.iter_child_nodes(node):
                if isinstance(child, (ast.FunctionDef, ast.AsyncFunctionDef)):
                    q = '%s.%s' % (qual, child.name) if qual else child.name
                    fi = FuncInfo(child, m, '%s:%s' % (m.name, q), parent,
                                  parent if isinstance(parent, ClassInfo) else None)
                    self._add_func(fi)
                    if isinstance(parent, ClassInfo):
                        parent.methods[child.name] = fi
                    visit(child, q, fi, None)
                elif isinstance(child, ast.Lambda):
                    q = '%s.<lambda@%d:%d>' % (qual, child.lineno, child.col_offset) if qual \
                        else '<lambda@%d:%d>' % (child.lineno, child.col_offset)
                    fi = FuncInfo(child, m, '%s:%s' % (m.name, q), parent, None)
                    self._add_func(fi)
                    visit(child, q, fi, None)
                elif isinstance(child, ast.ClassDef):
                    q = '%s.%s' % (qual, child.name) if qual else child.name
                    ci = ClassInfo(child, m, '%s:%s' % (m.name, q), parent)
                    self.classes[ci.qualname] = ci
                    self.class_of_node[id(child)] = ci
                    for st in child.body:
                        if isinstance(st, ast.Assign):
                            for t in st.targets:
                                if isinstance(t, ast.Name):
                                    ci.attrs[t.id] = st.value
                                elif isinstance(t, (ast.Tuple, ast.List)):
                                    for e in t.elts:
                                        if isinstance(e, ast.Name):
                                            ci.attrs[e.id] = st.value
                        elif isinstance(st, ast.AnnAssign) and isinstance(st.target, ast.Name) and st.value is not None:
                            ci.attrs[st.target.id] = st.value
                    visit(child, q, ci, ci)
                else:
                    visit(child, qual, parent, cls)
        visit(m.tree, '', None, None)
        # top-level definitions (including those nested in top-level try/if)
        def top(stmts):
            for st in stmts:
                if isinstance(st, (ast.FunctionDef, ast.AsyncFunctionDef, ast.ClassDef)):
                    m.defs.setdefault(st.name, []).append(st)
                elif isinstance(st, ast.Assign):
                    for t in st.targets:
                        for nm in _target_names(t):
                            m.defs.setdefault(nm, []).append(('assign', st.value, st))
                elif isinstance(st, ast.AnnAssign) and isinstance(st.target, ast.Name):
                    if st.value is not None:
                        m.defs.setdefault(st.target.id, []).append(('assign', st.value, st))
                elif isinstance(st, (ast.If, ast.Try)):
                    top(st.body)
                    top(st.orelse)
                    if isinstance(st, ast.Try):
                        for h in st.handlers:
                            top(h.body)
                        top(st.finalbody)
                elif isinstance(st, (ast.With, ast.For, ast.While)):
                    top(st.body)
        top(m.tree.body)

    def _add_func(self, fi):
        self.functions[fi.qualname] = fi
        self.func_of_node[id(fi.node)] = fi

    # ------------------------------------------------------------------ lookups
    def module(self, name):
        if name not in self.modules:
            raise AnalysisError('module %s not found in the working tree' % name)
        return self.modules[name]

    _MISSING = object()

    def func(self, qualname, default=_MISSING):
        if qualname not in self.functions:
            # `module:factory.<inner>`: the inner function of a factory is found by role when its private name changed -
            # it is the nested def the factory returns (or, failing that, its only nested def)
            mod, _, q = qualname.partition(':')
            if '.' in q:
                outer = self.func(mod + ':' + q.rsplit('.', 1)[0], None)
                if outer is not None and not isinstance(outer.node, ast.Lambda):
                    nested = [n for n in own_nodes(outer.node) if isinstance(n, (ast.FunctionDef, ast.AsyncFunctionDef))]
                    rets = [n.value.id for n in own_nodes(outer.node) if isinstance(n, ast.Return) and isinstance(n.value, ast.Name)]
                    pick = [n for n in nested if n.name in rets]
                    if len(pick) != 1 and len(nested) == 1:
                        pick = nested
                    if len(pick) == 1 and id(pick[0]) in self.func_of_node:
                        return self.func_of_node[id(pick[0])]
            if default is not Repo._MISSING:
                return default
            raise AnalysisError('function %s not found (anchor vanished)' % qualname)
        return self.functions[qualname]

    def find_funcs(self, module=None, name=None, pred=None):
        out = []
        for fi in self.functions.values():
            if module is not None and fi.module.name != module:
                continue
            if name is not None and fi.name != name:
                continue
            if pred is not None and not pred(fi):
                continue
            out.append(fi)
        return out

    def cls(self, qualname):
        if qualname not in self.classes:
            raise AnalysisError('class %s not found (anchor vanished)' % qualname)
        return self.classes[qualname]

    def find_class(self, name):
        return [c for c in self.classes.values() if c.name == name]

    def enclosing_func(self, node):
        for p in parent_chain(node):
            if isinstance(p, (ast.FunctionDef, ast.AsyncFunctionDef, ast.Lambda)):
                return self.func_of_node[id(p)]
        return None

    def enclosing_class(self, node):
        for p in parent_chain(node):
            if isinstance(p, ast.ClassDef):
                return self.class_of_node[id(p)]
            if isinstance(p, (ast.FunctionDef, ast.AsyncFunctionDef, ast.Lambda)):
                fi = self.func_of_node[id(p)]
                if fi.cls is not None:
                    return fi.cls
        return None

    def module_of(self, node):
        n = node
        while getattr(n, '_parent', None) is not None:
            n = n._parent
        for m in self.modules.values():
            if m.tree is n:
                return m
        return None

    def stats(self):
        return dict(modules=len(self.modules), functions=len(self.functions), classes=len(self.classes),
                    skipped=[s[0] for s in self.skipped])


def _target_names(t):
    if isinstance(t, ast.Name):
        yield t.id
    elif isinstance(t, (ast.Tuple, ast.List)):
        for e in t.elts:
            yield from _target_names(e)
    elif isinstance(t, ast.Starred):
        yield from _target_names(t.value)
