"""Processor model: roles found in the working tree (package steps, matcher sites, resource loops, row loops)
and the guard-atom canonicaliser used by the signature rules."""
import ast

from .astcopy import clone

from .deps import Facts, base_name, names_in, pseudo
from .loader import AnalysisError, ClassInfo, FuncInfo, own_nodes, parent_chain
from .paths import (BREAK, CONTINUE, FALL, RAISE, RETURN, Enumerator, Item, Path, calls_in, eval_order,
                    item_nodes, path_nodes, yields_in)


def u(node):
    try:
        return ast.unparse(node)
    except Exception:
        return repr(node)


def where(repo, node):
    m = repo.module_of(node)
    return '%s:%d' % (m.relpath if m else '?', getattr(node, 'lineno', 0))


def fq(repo, node):
    fi = repo.enclosing_func(node)
    if fi is not None:
        return fi.qualname
    m = repo.module_of(node)
    return (m.name if m else '?') + ':<module>'


# ---------------------------------------------------------------------- roles

def package_steps(repo):
    """Function-style package steps: generator functions whose only parameter is called `package`
    (the framework dispatches on that name, flow.py)."""
    out = []
    for fi in repo.functions.values():
        if isinstance(fi.node, ast.Lambda):
            continue
        if fi.all_params == ['package'] and fi.is_generator:
            out.append(fi)
        elif fi.is_generator and len(fi.all_params) > 1 and fi.all_params[-1] == 'package' and fi.cls is None and \
                _partial_applied(fi):
            # a module-level generator whose leading parameters are bound with functools.partial: what the flow sees is a
            # callable of the single parameter `package`
            out.append(fi)
    # a generator with the same signature that another step delegates to (`yield from passthrough(package)`) and that is not itself
    # handed out is a piece of that step, not a step
    helpers = set()
    for fi in out:
        scope = fi.parent.node if isinstance(fi.parent, FuncInfo) else fi.module.tree
        returned = {n.id for r in ast.walk(scope) if isinstance(r, ast.Return) and r.value is not None
                    for n in ast.walk(r.value) if isinstance(n, ast.Name)} if isinstance(fi.parent, FuncInfo) else set()
        if fi.node.name in returned:
            continue
        for other in out:
            if other is fi or other.parent is not fi.parent or other.module is not fi.module:
                continue
            if any(isinstance(c, ast.Call) and isinstance(c.func, ast.Name) and c.func.id == fi.node.name
                   and len(c.args) == 1 and isinstance(c.args[0], ast.Name) and c.args[0].id == 'package'
                   for c in ast.walk(other.node)):
                helpers.add(fi.qualname)
    out = [f for f in out if f.qualname not in helpers]
    return sorted(out, key=lambda f: f.qualname)


def _partial_applied(fi):
    """Is there, in fi's module, functools.partial(<fi>, a1..ak) binding all parameters but the last?"""
    k = len(fi.all_params) - 1
    for n in ast.walk(fi.module.tree):
        if isinstance(n, ast.Call) and u(n.func) in ('functools.partial', 'partial') and n.args and \
                isinstance(n.args[0], ast.Name) and n.args[0].id == fi.node.name and len(n.args) - 1 + len(n.keywords) == k:
            return True
    return False


def rows_steps(repo):
    out = []
    for fi in repo.functions.values():
        if isinstance(fi.node, ast.Lambda):
            continue
        if fi.all_params == ['rows'] and fi.is_generator and isinstance(fi.parent, FuncInfo):
            out.append(fi)
    return sorted(out, key=lambda f: f.qualname)


def processor_classes(repo, res):
    out = []
    for c in repo.classes.values():
        if res.is_subclass(c, 'DataStreamProcessor'):
            out.append(c)
    return sorted(out, key=lambda c: c.qualname)


def matcher_sites(repo, res):
    """Every call constructing a ResourceMatcher."""
    out = []
    for m in repo.modules.values():
        for n in ast.walk(m.tree):
            if isinstance(n, ast.Call) and res.instantiates(n, 'ResourceMatcher'):
                out.append(n)
    return out


def is_matcher_ctor(res, expr):
    if isinstance(expr, ast.IfExp):
        return is_matcher_ctor(res, expr.body) or is_matcher_ctor(res, expr.orelse)
    if isinstance(expr, ast.BoolOp):
        return any(is_matcher_ctor(res, v) for v in expr.values)
    return isinstance(expr, ast.Call) and res.instantiates(expr, 'ResourceMatcher')


def matcher_names(repo, res, fi):
    """Names (plain or self.x) that hold a ResourceMatcher in the scope visible from fi."""
    names = set()
    scopes = []
    f = fi
    while f is not None:
        scopes.append(f)
        p = f.parent
        while isinstance(p, ClassInfo):
            p = p.parent
        f = p
    for f in scopes:
        for n in ast.walk(f.node):
            if isinstance(n, ast.Assign) and is_matcher_ctor(res, n.value):
                for t in n.targets:
                    p = pseudo(t)
                    if p:
                        names.add(p)
    cls = repo.enclosing_class(fi.node)
    if cls is not None:
        for k in cls.mro:
            for m in k.methods.values():
                for n in ast.walk(m.node):
                    if isinstance(n, ast.Assign) and is_matcher_ctor(res, n.value):
                        for t in n.targets:
                            p = pseudo(t)
                            if p:
                                names.add(p)
    return names


# ---------------------------------------------------------------------- resource-name expressions

def is_resname_stream(expr, var):
    """`var.res.name`, `var.res.descriptor['name']` (stream phase: var is a ResourceWrapper)."""
    if isinstance(expr, ast.Attribute) and expr.attr == 'name':
        v = expr.value
        if isinstance(v, ast.Attribute) and v.attr == 'res' and isinstance(v.value, ast.Name) and v.value.id == var:
            return True
    if isinstance(expr, ast.Subscript) and _const(expr.slice) == 'name':
        v = expr.value
        if isinstance(v, ast.Attribute) and v.attr == 'descriptor':
            v = v.value
            if isinstance(v, ast.Attribute) and v.attr == 'res' and isinstance(v.value, ast.Name) and v.value.id == var:
                return True
    return False


def is_resname_descr(expr, var):
    """`var['name']` / `var.name` / var.get('name') (package phase: var is a resource descriptor or Resource)."""
    if isinstance(expr, ast.Subscript) and _const(expr.slice) == 'name':
        return isinstance(expr.value, ast.Name) and expr.value.id == var
    if isinstance(expr, ast.Attribute) and expr.attr == 'name':
        return isinstance(expr.value, ast.Name) and expr.value.id == var
    if isinstance(expr, ast.Call) and isinstance(expr.func, ast.Attribute) and expr.func.attr == 'get' \
            and isinstance(expr.func.value, ast.Name) and expr.func.value.id == var and expr.args \
            and _const(expr.args[0]) == 'name':
        return True
    return False


def _const(node):
    if isinstance(node, ast.Constant):
        return node.value
    return None


class Atomizer:
    """Canonicalise branch tests of a resource loop into guard atoms.

    atoms: ('MATCH',) ('EQ', v) ('FLAG', v) ('ISNONE', v) ('OTHER', text)"""

    def __init__(self, repo, res, fi, loopvar, phase, scope_node=None):
        self.repo, self.res, self.fi = repo, res, fi
        self.var = loopvar
        self.phase = phase            # 'stream' | 'descr'
        self.matchers = matcher_names(repo, res, fi)
        self.scope = scope_node or fi.node
        self.aliases = {}             # local name -> expr it was (solely) assigned from, inside the scope
        counts = {}
        for n in ast.walk(self.scope):
            if isinstance(n, ast.Assign) and len(n.targets) == 1 and isinstance(n.targets[0], ast.Name):
                nm = n.targets[0].id
                counts[nm] = counts.get(nm, 0) + 1
                self.aliases[nm] = n.value
            elif isinstance(n, (ast.AugAssign,)) and isinstance(n.target, ast.Name):
                counts[n.target.id] = counts.get(n.target.id, 0) + 2
            elif isinstance(n, (ast.For,)):
                for x in ast.walk(n.target):
                    if isinstance(x, ast.Name):
                        counts[x.id] = counts.get(x.id, 0) + 2
        for nm, c in counts.items():
            if c != 1:
                self.aliases.pop(nm, None)

    def is_resname(self, expr, depth=0):
        if self.phase == 'stream' and is_resname_stream(expr, self.var):
            return True
        if self.phase == 'stream' and isinstance(expr, ast.Attribute) and expr.attr == 'name' \
                and isinstance(expr.value, ast.Name) and expr.value.id in self.aliases:
            a = self.aliases[expr.value.id]
            if isinstance(a, ast.Attribute) and a.attr == 'res' and isinstance(a.value, ast.Name) and a.value.id == self.var:
                return True
        if self.phase == 'descr' and is_resname_descr(expr, self.var):
            return True
        if isinstance(expr, ast.Name) and expr.id in self.aliases and depth < 3:
            return self.is_resname(self.aliases[expr.id], depth + 1)
        return False

    def is_matcher(self, expr):
        p = pseudo(expr)
        return p is not None and p in self.matchers

    def is_match_call(self, expr):
        return (isinstance(expr, ast.Call) and isinstance(expr.func, ast.Attribute) and expr.func.attr == 'match'
                and (self.is_matcher(expr.func.value) or is_matcher_ctor(self.res, expr.func.value))
                and len(expr.args) == 1 and self.is_resname(expr.args[0]))

    def atoms(self, test, pol, depth=0):
        """-> list of (atom, polarity)"""
        if isinstance(test, ast.UnaryOp) and isinstance(test.op, ast.Not):
            return self.atoms(test.operand, not pol, depth)
        if isinstance(test, ast.BoolOp):
            if (isinstance(test.op, ast.And) and pol) or (isinstance(test.op, ast.Or) and not pol):
                out = []
                for v in test.values:
                    out.extend(self.atoms(v, pol, depth))
                return out
            return [(('OTHER', u(test)), pol)]
        if self.is_match_call(test):
            return [(('MATCH',), pol)]
        if isinstance(test, ast.Name) and test.id in self.aliases and depth < 3:
            v = self.aliases[test.id]
            if self.is_match_call(v) or (isinstance(v, ast.Compare)):
                return self.atoms(v, pol, depth + 1)
        if isinstance(test, ast.Compare) and len(test.ops) == 1 and isinstance(test.ops[0], (ast.Eq, ast.NotEq)):
            a, b = test.left, test.comparators[0]
            p = pol if isinstance(test.ops[0], ast.Eq) else not pol
            if self.is_resname(a) and pseudo(b):
                return [(('EQ', pseudo(b)), p)]
            if self.is_resname(b) and pseudo(a):
                return [(('EQ', pseudo(a)), p)]
            if pseudo(a) and isinstance(b, ast.Constant):
                return [(('CMP', pseudo(a), repr(b.value)), p)]
        if isinstance(test, ast.Compare) and len(test.ops) == 1 and isinstance(test.ops[0], (ast.Is, ast.IsNot)):
            a, b = test.left, test.comparators[0]
            if pseudo(a) and isinstance(b, ast.Constant) and b.value is None:
                p = pol if isinstance(test.ops[0], ast.Is) else not pol
                return [(('ISNONE', pseudo(a)), p)]
        if isinstance(test, ast.Compare) and len(test.ops) == 1 and isinstance(test.ops[0], (ast.In, ast.NotIn)):
            a, b = test.left, test.comparators[0]
            p = pol if isinstance(test.ops[0], ast.In) else not pol
            if self.is_resname(a) and pseudo(b):
                return [(('IN', pseudo(b)), p)]
        ps = pseudo(test)
        if ps is not None:
            return [(('FLAG', ps), pol)]
        return [(('OTHER', u(test)), pol)]

    def path_atoms(self, path):
        """All guard atoms along a path -> dict atom -> polarity, or None if contradictory (infeasible)."""
        val = {}
        for it in path.items:
            if it.kind != 'guard':
                continue
            for a, p in self.atoms(it.node, it.pol):
                if a in val and val[a] != p:
                    return None
                val[a] = p
        return val


# ---------------------------------------------------------------------- resource loops (stream phase)

class ResLoop:
    """A `for r in <resource stream>` loop (or a `yield from <stream>` passthrough) in the stream phase."""

    def __init__(self, fi, node, var, kind='for', via=None):
        self.fi = fi
        self.node = node       # For node, or YieldFrom node for passthrough
        self.var = var
        self.kind = kind       # 'for' | 'passthrough'
        self.via = via or []   # inlining chain (call sites)


def stream_sources(repo, res, fi, seeds):
    """Names in fi that denote the upstream resource stream, starting from `seeds` (parameter names):
    follows `x = iter(seed)` / `x = seed`."""
    names = set(seeds)
    changed = True
    while changed:
        changed = False
        for n in own_nodes(fi.node):
            if isinstance(n, ast.Assign) and len(n.targets) == 1 and isinstance(n.targets[0], ast.Name):
                v = n.value
                if isinstance(v, ast.Call) and isinstance(v.func, ast.Name) and v.func.id == 'iter' and v.args:
                    v = v.args[0]
                if isinstance(v, ast.Name) and v.id in names and n.targets[0].id not in names:
                    names.add(n.targets[0].id)
                    changed = True
    return names


def find_resloops(repo, res, fi, seeds, depth=0, via=None):
    """Resource loops reachable from fi given that `seeds` are upstream-stream names; follows
    `yield from g(seed)` into local repo generator functions (depth <= 2)."""
    via = via or []
    srcs = stream_sources(repo, res, fi, seeds)
    out = []
    for n in own_nodes(fi.node):
        if isinstance(n, ast.For) and isinstance(n.iter, ast.Name) and n.iter.id in srcs \
                and isinstance(n.target, ast.Name):
            out.append(ResLoop(fi, n, n.target.id, 'for', via))
        elif isinstance(n, ast.YieldFrom):
            v = n.value
            if isinstance(v, ast.Name) and v.id in srcs:
                out.append(ResLoop(fi, n, None, 'passthrough', via))
            elif isinstance(v, ast.Call) and depth < 2:
                hit = [i for i, a in enumerate(v.args) if isinstance(a, ast.Name) and a.id in srcs]
                if hit:
                    for t in res.resolve_call(v):
                        if isinstance(t, FuncInfo):
                            params = t.params
                            if params and params[0] in ('self', 'cls') and t.cls is not None:
                                params = params[1:]
                            sub = [params[i] for i in hit if i < len(params)]
                            out.extend(find_resloops(repo, res, t, sub, depth + 1, via + [n]))
    return out


class IterSig:
    """What one path through one iteration of a resource loop does."""

    def __init__(self):
        self.atoms = {}
        self.yields = []     # (kind, node)  kind: identity / unwrap / wrap / fresh
        self.drains = []     # call nodes
        self.defers = []     # call nodes (append to a list flushed after the loop)
        self.term = FALL
        self.path = None

    def describe(self):
        g = ','.join(('' if p else '!') + '/'.join(a) for a, p in sorted(self.atoms.items()))
        y = ','.join(k for k, _ in self.yields)
        return '[%s] yields(%s) drains=%d defers=%d %s' % (g, y, len(self.drains), len(self.defers), self.term)


DRAIN_EXTERNALS = {'collections.deque'}


def is_drain_loop(node, var=None):
    """`for _ in x: pass` - the loop that consumes x and does nothing else (var: the name x must be, if given)"""
    return isinstance(node, ast.For) and not node.orelse and all(isinstance(st, ast.Pass) for st in node.body) and \
        isinstance(node.iter, ast.Name) and (var is None or node.iter.id == var)


def is_drain_call(res, call):
    """collections.deque(x, maxlen=0)"""
    if res.external_name(call) in DRAIN_EXTERNALS:
        for k in call.keywords:
            if k.arg == 'maxlen' and _const(k.value) == 0:
                return True
        if len(call.args) >= 2 and _const(call.args[1]) == 0:
            return True
        return False
    # a repository helper whose whole body drains its first parameter (`def drain(rows): deque(rows, maxlen=0)`)
    try:
        tg = res.resolve_call(call)
    except Exception:
        return False
    from .loader import FuncInfo
    fis = [t for t in tg if isinstance(t, FuncInfo)]
    if len(fis) == 1 and len(tg) == 1 and call.args and not isinstance(fis[0].node, ast.Lambda) and fis[0].params:
        body = [st for st in fis[0].node.body if not (isinstance(st, ast.Expr) and isinstance(st.value, ast.Constant))]
        p0 = fis[0].params[0]
        if len(body) == 1:
            st = body[0]
            if isinstance(st, ast.Expr) and isinstance(st.value, ast.Call) and st.value.args and \
                    isinstance(st.value.args[0], ast.Name) and st.value.args[0].id == p0 and \
                    res.external_name(st.value) in DRAIN_EXTERNALS and is_drain_call(res, st.value):
                return True
            if isinstance(st, ast.For) and isinstance(st.iter, ast.Name) and st.iter.id == p0 and \
                    all(isinstance(b, ast.Pass) for b in st.body) and not st.orelse:
                return True
    return False


def classify_yield(ynode, var, facts):
    v = ynode.value
    if v is None:
        return 'fresh'
    if isinstance(v, ast.Name) and v.id == var:
        return 'identity'
    if isinstance(v, ast.Attribute) and v.attr == 'it' and isinstance(v.value, ast.Name) and v.value.id == var:
        return 'unwrap'
    if var in facts.roots(v):
        return 'wrap'
    return 'fresh'


def flushed_lists(fi, loop):
    """Names of local lists that a loop *after* `loop` (same block) iterates while yielding (the DEFER idiom)."""
    out = set()
    parent = getattr(loop, '_parent', None)
    body = None
    for fld in ('body', 'orelse', 'finalbody'):
        b = getattr(parent, fld, None)
        if isinstance(b, list) and loop in b:
            body = b
    if body is None:
        return out
    for st in body[body.index(loop) + 1:]:
        if isinstance(st, ast.For) and isinstance(st.iter, ast.Name):
            if any(isinstance(x, (ast.Yield, ast.YieldFrom)) for x in ast.walk(st)):
                out.add(st.iter.id)
        # the same flush written as `yield from <list>`
        if isinstance(st, ast.Expr) and isinstance(st.value, ast.YieldFrom) and isinstance(st.value.value, ast.Name):
            out.add(st.value.value.id)
    return out


def resloop_signature(repo, res, rl: ResLoop, cap=4096):
    """-> (list[IterSig], Atomizer) for a 'for' resource loop."""
    fi = rl.fi
    at = Atomizer(repo, res, fi, rl.var, 'stream', scope_node=rl.node)
    facts = Facts(fi, include_nested=False)
    flushed = flushed_lists(fi, rl.node)
    en = Enumerator(cap=cap, where=fi.qualname)
    sigs = []
    for p in en.body_paths(rl.node):
        if infeasible_by_values(p):
            continue
        val = at.path_atoms(p)
        if val is None:
            continue
        s = IterSig()
        s.atoms = val
        s.term = p.term
        s.path = p
        for n in path_nodes(p, into_loops=True):
            if isinstance(n, ast.Yield):
                s.yields.append((classify_yield(n, rl.var, facts), n))
            elif isinstance(n, ast.YieldFrom):
                s.yields.append(('yieldfrom', n))
            elif isinstance(n, ast.Call):
                if is_drain_call(res, n) and n.args and rl.var in facts.roots(n.args[0]):
                    s.drains.append(n)
                elif isinstance(n.func, ast.Attribute) and n.func.attr == 'append' \
                        and isinstance(n.func.value, ast.Name) and n.func.value.id in flushed:
                    s.defers.append(n)
        sigs.append(s)
    return sigs, at


# ---------------------------------------------------------------------- row loops

def row_loops(fi, streams=None):
    """`for row in X` loops of a generator function where X is (derived from) a parameter: (loop, var, srcname)."""
    params = set(fi.all_params) - {'self', 'cls'}
    if streams is not None:
        params = set(streams)
    out = []
    for n in own_nodes(fi.node):
        if isinstance(n, ast.For):
            it = n.iter
            idx_wrapped = False
            if isinstance(it, ast.Call) and isinstance(it.func, ast.Name) and it.func.id == 'enumerate' and it.args:
                it = it.args[0]
                idx_wrapped = True
            if isinstance(it, ast.Name) and it.id in params:
                tgt = n.target
                if idx_wrapped and isinstance(tgt, ast.Tuple) and len(tgt.elts) == 2:
                    tgt = tgt.elts[1]
                if isinstance(tgt, ast.Name):
                    out.append((n, tgt.id, it.id))
    return out


def norm_guard(t, pol):
    while isinstance(t, ast.UnaryOp) and isinstance(t.op, ast.Not):
        t, pol = t.operand, not pol
    return t, pol


_FLIP = {ast.NotIn: ast.In, ast.IsNot: ast.Is, ast.NotEq: ast.Eq}


def norm_compare(t, pol):
    """norm_guard plus: `a not in b` -> (`a in b`, flipped), likewise `is not`, `!=`."""
    t, pol = norm_guard(t, pol)
    if isinstance(t, ast.Compare) and len(t.ops) == 1 and type(t.ops[0]) in _FLIP:
        t = ast.Compare(left=t.left, ops=[_FLIP[type(t.ops[0])]()], comparators=t.comparators)
        pol = not pol
    return t, pol


class RowSig:
    def __init__(self):
        self.guards = []    # (test node, polarity)
        self.yields = []    # (kind, node): identity / fresh / derived
        self.stores = []    # statements storing into the row object
        self.calls = []
        self.term = FALL
        self.path = None

    def describe(self):
        g = ' & '.join(('' if p else 'not ') + u(t) for t, p in self.guards)
        return '[%s] yields(%s) stores=%d %s' % (g, ','.join(k for k, _ in self.yields), len(self.stores), self.term)


def row_store_targets(stmt, var):
    """Does this node store into the row object `var` (row[k] = v, row.update(..), del row[k], row.pop/clear/setdefault)?"""
    if isinstance(stmt, (ast.Assign, ast.AugAssign, ast.AnnAssign)):
        targets = stmt.targets if isinstance(stmt, ast.Assign) else [stmt.target]
        for t in targets:
            for x in ast.walk(t):
                if isinstance(x, ast.Subscript) and isinstance(x.value, ast.Name) and x.value.id == var:
                    return True
    if isinstance(stmt, ast.Delete):
        for t in stmt.targets:
            if isinstance(t, ast.Subscript) and isinstance(t.value, ast.Name) and t.value.id == var:
                return True
    if isinstance(stmt, ast.Call) and isinstance(stmt.func, ast.Attribute) \
            and stmt.func.attr in ('update', 'pop', 'clear', 'setdefault', 'popitem', '__setitem__', '__delitem__') \
            and isinstance(stmt.func.value, ast.Name) and stmt.func.value.id == var:
        return True
    return False


def rowloop_signature(fi, loop, var, cap=4096):
    facts = Facts(fi, include_nested=False)
    en = Enumerator(cap=cap, where=fi.qualname)
    out = []
    for p in en.body_paths(loop):
        s = RowSig()
        s.term = p.term
        s.path = p
        s.guards = [norm_guard(t, pol) for t, pol in p.guards()]
        for n in path_nodes(p, into_loops=True):
            if isinstance(n, ast.Yield):
                v = n.value
                if isinstance(v, ast.Name) and v.id == var:
                    k = 'identity'
                elif v is not None and var in facts.roots(v):
                    k = 'derived'
                else:
                    k = 'fresh'
                s.yields.append((k, n))
            elif isinstance(n, ast.YieldFrom):
                s.yields.append(('yieldfrom', n))
            elif isinstance(n, ast.Call):
                s.calls.append(n)
                if row_store_targets(n, var):
                    s.stores.append(n)
            elif isinstance(n, (ast.Assign, ast.AugAssign, ast.Delete, ast.AnnAssign)):
                if row_store_targets(n, var):
                    s.stores.append(n)
        out.append(s)
    return out


# ---------------------------------------------------------------------- package-step phase split

class StepPhases:
    """Split a function-style package step into package phase / first yield / stream phase, per path."""

    def __init__(self, repo, res, fi, cap=4096):
        self.fi = fi
        en = Enumerator(cap=cap, where=fi.qualname,
                        relevant=lambda n: isinstance(n, (ast.Yield, ast.YieldFrom)))
        self.paths = en.paths(fi.node.body)
        self.splits = []   # (pre_items, first_yield_node or None, post_items, term)
        for p in self.paths:
            pre, first, post = [], None, []
            for it in p.items:
                if first is None:
                    ys = [n for n in item_nodes(it) if isinstance(n, (ast.Yield, ast.YieldFrom))] \
                        if it.kind not in ('loop', 'loop_exit') else \
                        [n for n in ast.walk(it.node) if isinstance(n, (ast.Yield, ast.YieldFrom))]
                    if ys:
                        first = (ys[0], it)
                        continue
                    pre.append(it)
                else:
                    post.append(it)
            self.splits.append((pre, first, post, p.term))


def descriptor_aliases(fi, pkg_param='package'):
    """Names in fi that alias (parts of) the package descriptor: flow-insensitive alias class."""
    facts = Facts(fi, include_nested=False)
    roots = {pkg_param}
    names = set()
    # iterate to fixpoint
    changed = True
    while changed:
        changed = False
        for nm, vals in facts.assigns.items():
            if nm in names or nm in roots:
                continue
            for v in vals:
                b = v.id if isinstance(v, ast.Name) else base_name(v)
                if b in names or b in roots:
                    names.add(nm)
                    changed = True
                    break
    return names | roots


def block_of(node):
    """The statement list that contains `node` (body / orelse / finalbody / handler body of its parent)."""
    parent = getattr(node, '_parent', None)
    for fld in ('body', 'orelse', 'finalbody'):
        b = getattr(parent, fld, None)
        if isinstance(b, list) and node in b:
            return b
    return []


def stmts_after(node):
    b = block_of(node)
    return b[b.index(node) + 1:] if b else []


def truth_table(sigs_or_paths, atoms_of, n_yields):
    """Evaluate the guards of each path as boolean formulas over named atoms.
    atoms_of(test) -> atom name for a leaf test (or None);  returns {valuation tuple: set of yield counts}"""
    import itertools
    names = []

    def leaves(t):
        if isinstance(t, ast.BoolOp):
            for v in t.values:
                yield from leaves(v)
        elif isinstance(t, ast.UnaryOp) and isinstance(t.op, ast.Not):
            yield from leaves(t.operand)
        else:
            yield t
    for p in sigs_or_paths:
        for t, pol in p.path.guards() if hasattr(p, 'path') else p.guards():
            for lf in leaves(t):
                a = atoms_of(lf)
                if a is not None and a not in names:
                    names.append(a)

    def ev(t, val):
        if isinstance(t, ast.BoolOp):
            vs = [ev(v, val) for v in t.values]
            if any(v is None for v in vs):
                return None
            return all(vs) if isinstance(t.op, ast.And) else any(vs)
        if isinstance(t, ast.UnaryOp) and isinstance(t.op, ast.Not):
            v = ev(t.operand, val)
            return None if v is None else not v
        a = atoms_of(t)
        return val.get(a) if a is not None else None
    out = {}
    for bits in itertools.product([True, False], repeat=len(names)):
        val = dict(zip(names, bits))
        for p in sigs_or_paths:
            path = p.path if hasattr(p, 'path') else p
            sat = True
            for t, pol in path.guards():
                v = ev(t, val)
                if v is None or v != pol:
                    sat = False
                    break
            if sat:
                out.setdefault(tuple(sorted(val.items())), set()).add(n_yields(p))
    return names, out


def alpha_text(node, fnode):
    """Unparsed text of `node` with the local variables of the enclosing function `fnode` (names it assigns, loop targets,
    except / with names - not its parameters, not attributes, not globals) replaced by $1, $2, ... in order of first appearance:
    a key for findings that survives the renaming of locals."""
    import copy
    locals_ = set()
    for n in ast.walk(fnode):
        if isinstance(n, ast.Name) and isinstance(n.ctx, (ast.Store, ast.Del)):
            locals_.add(n.id)
        elif isinstance(n, ast.ExceptHandler) and n.name:
            locals_.add(n.name)
    a = fnode.args if hasattr(fnode, 'args') else None
    if a is not None:
        for x in a.posonlyargs + a.args + a.kwonlyargs + ([a.vararg] if a.vararg else []) + ([a.kwarg] if a.kwarg else []):
            locals_.discard(x.arg)
    order = {}

    class T(ast.NodeTransformer):
        def visit_Name(self, n):
            if n.id in locals_:
                if n.id not in order:
                    order[n.id] = '$%d' % (len(order) + 1)
                return ast.copy_location(ast.Name(id='V%s' % order[n.id][1:] + '__alpha', ctx=n.ctx), n)
            return n
    t = T().visit(clone(node))
    import re
    return re.sub(r'V(\d+)__alpha', r'$\1', u(t))


# ---------------------------------------------------------------------- role lookups shared by the property checks
def returned_closure(ctx, fi):
    """The nested function (FuncInfo) or lambda a factory returns."""
    from .loader import own_nodes
    rets = [n for n in own_nodes(fi.node) if isinstance(n, ast.Return) and n.value is not None]
    if len(rets) != 1:
        return None
    v = rets[0].value
    if isinstance(v, ast.Lambda):
        return ctx.repo.func_of_node.get(id(v))
    if isinstance(v, ast.Name):
        for n in own_nodes(fi.node):
            if isinstance(n, ast.FunctionDef) and n.name == v.id:
                return ctx.repo.func_of_node.get(id(n))
    return None


def resolved_callee(ctx, call, fi):
    from .loader import FuncInfo
    tg = [t for t in ctx.res._resolve_callee(call.func, fi.module, fi) if isinstance(t, FuncInfo)]
    return tg[0] if len(tg) == 1 else None


def generator_wrapper_of(ctx, step):
    """The one generator function a package step calls (the row wrapper it hands a selected resource to)."""
    from .loader import AnalysisError, own_nodes
    out = []
    for c in own_nodes(step.node):
        if isinstance(c, ast.Call):
            h = resolved_callee(ctx, c, step)
            if h is not None and h.is_generator and h not in out:
                out.append(h)
    if len(out) != 1:
        raise AnalysisError('%s: expected one row-wrapper call, found %d' % (step.qualname, len(out)))
    return out[0]


def toplevel_qualname(fi):
    """module:TopLevelName of the outermost def / class enclosing fi - the identity used for findings in nested, privately named
    functions (their own names are an implementation detail a refactoring may change)."""
    mod, q = fi.qualname.split(':', 1)
    return mod + ':' + q.split('.')[0]


def dominating_tests(node, stop):
    """(test, polarity) of every `if` between node and stop whose branch contains node"""
    out = []
    cur = node
    while getattr(cur, '_parent', None) is not None and cur is not stop:
        par = cur._parent
        if isinstance(par, ast.If):
            if any(cur is x for x in par.body):
                out.append((par.test, True))
            elif any(cur is x for x in par.orelse):
                out.append((par.test, False))
        # statements before it in the same block that leave the block when their test holds: `if T: continue` ... node
        for fld in ('body', 'orelse', 'finalbody'):
            blk = getattr(par, fld, None)
            if isinstance(blk, list) and any(cur is x for x in blk):
                for prev in blk[:[i for i, x in enumerate(blk) if x is cur][0]]:
                    if isinstance(prev, ast.If) and not prev.orelse and prev.body and \
                            isinstance(prev.body[-1], (ast.Continue, ast.Break, ast.Return, ast.Raise)):
                        out.append((prev.test, False))
        cur = par
    res_ = []
    for t, pol in out:
        if isinstance(t, ast.UnaryOp) and isinstance(t.op, ast.Not):
            t, pol = t.operand, not pol
        res_.append((t, pol))
    return res_




def dominating_atoms(node, stop):
    """dominating_tests split into atoms: `A and B` that holds gives A, B; `A or B` that does not hold gives not A, not B"""
    out = []

    def split(t, pol):
        if isinstance(t, ast.UnaryOp) and isinstance(t.op, ast.Not):
            split(t.operand, not pol)
        elif isinstance(t, ast.BoolOp) and ((isinstance(t.op, ast.And) and pol) or (isinstance(t.op, ast.Or) and not pol)):
            for v in t.values:
                split(v, pol)
        else:
            out.append((t, pol))
    for t, pol in dominating_tests(node, stop):
        split(t, pol)
    return out


def infeasible_by_values(path):
    """A path whose guard tests a name for truth after the same path bound that name to a literal of the opposite truth value
    (names = []; ... if names: ...) cannot be taken."""
    from .pathvals import PathValues
    try:
        pv = PathValues(path)
    except Exception:
        return False
    for g, pol in pv.guards:
        t = g
        if isinstance(t, ast.UnaryOp) and isinstance(t.op, ast.Not):
            t, pol = t.operand, not pol
        truth = None
        if isinstance(t, ast.Constant):
            truth = bool(t.value)
        elif isinstance(t, (ast.List, ast.Tuple, ast.Set)):
            truth = bool(t.elts)
        elif isinstance(t, ast.Dict):
            truth = bool(t.keys)
        elif isinstance(t, ast.Call) and isinstance(t.func, ast.Name) and t.func.id in ('dict', 'list', 'set', 'tuple') and \
                not t.args and not t.keywords:
            truth = False
        elif isinstance(t, ast.Compare) and len(t.ops) == 1 and isinstance(t.ops[0], (ast.Gt, ast.NotEq)) and \
                isinstance(t.left, ast.Call) and isinstance(t.left.func, ast.Name) and t.left.func.id == 'len' and t.left.args and \
                isinstance(t.left.args[0], (ast.List, ast.Tuple)) and isinstance(t.comparators[0], ast.Constant) and t.comparators[0].value == 0:
            truth = bool(t.left.args[0].elts)
        if truth is not None and truth != pol:
            return True
    return False
