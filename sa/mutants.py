"""Single-edit statement-level mutants of a source file (statement -> pass, branch test negated, break <-> continue, yield dropped,
comprehension filter negated), computed from the syntax tree with exact source offsets.  Used by the thorough-tier sensitivity audit
(sa/audit.py) and by the maintainer's blind-spot sweep (tools/blindspots.py).  Nothing here is executed on /repo code."""
import ast


def seg(src_lines, node):
    """(start offset, end offset) of a node in the joined source."""
    def off(line, col):
        return sum(len(l) for l in src_lines[:line - 1]) + len(src_lines[line - 1].encode('utf-8')[:col].decode('utf-8'))
    return off(node.lineno, node.col_offset), off(node.end_lineno, node.end_col_offset)


def func_of(node):
    names = []
    n = getattr(node, '_parent', None)
    while n is not None:
        if isinstance(n, (ast.FunctionDef, ast.AsyncFunctionDef, ast.ClassDef)):
            names.append(n.name)
        elif isinstance(n, ast.Lambda):
            names.append('<lambda>')
        n = getattr(n, '_parent', None)
    return '.'.join(reversed(names)) or '<module>'


def mutants_of(rel, source):
    tree = ast.parse(source)
    for n in ast.walk(tree):
        for c in ast.iter_child_nodes(n):
            c._parent = n
    lines = source.splitlines(keepends=True)
    out = []

    def add(node, kind, repl):
        s, e = seg(lines, node)
        out.append(dict(file=rel, func=func_of(node), line=node.lineno, kind=kind, orig=source[s:e][:160], start=s, end=e, repl=repl))

    for node in ast.walk(tree):
        par = getattr(node, '_parent', None)
        infunc = func_of(node) != '<module>'
        if isinstance(node, ast.Expr) and isinstance(node.value, ast.Constant):
            continue    # docstring
        if isinstance(node, (ast.Assign, ast.AugAssign, ast.AnnAssign, ast.Expr, ast.Delete)) and infunc:
            if isinstance(node, ast.Expr) and isinstance(node.value, (ast.Yield, ast.YieldFrom)):
                add(node, 'drop-yield', 'pass' if _other_yields(node) else 'yield from ()')
            else:
                add(node, 'drop-stmt', 'pass')
        elif isinstance(node, ast.Return) and node.value is not None and infunc:
            pass
        elif isinstance(node, ast.Raise) and infunc:
            add(node, 'drop-raise', 'pass')
        elif isinstance(node, ast.Assert) and infunc:
            add(node, 'drop-assert', 'pass')
        elif isinstance(node, ast.Break):
            add(node, 'break->continue', 'continue')
        elif isinstance(node, ast.Continue):
            add(node, 'continue->pass', 'pass')
        if isinstance(node, (ast.If, ast.While, ast.IfExp)) and infunc:
            t = node.test
            s, e = seg(lines, t)
            out.append(dict(file=rel, func=func_of(node), line=t.lineno, kind='negate-test', orig=source[s:e][:160], start=s, end=e,
                            repl='(not (%s))' % source[s:e]))
        if isinstance(node, ast.comprehension) and node.ifs and infunc:
            t = node.ifs[0]
            s, e = seg(lines, t)
            out.append(dict(file=rel, func=func_of(t), line=t.lineno, kind='negate-filter', orig=source[s:e][:160], start=s, end=e,
                            repl='(not (%s))' % source[s:e]))
    return out


def _other_yields(node):
    f = getattr(node, '_parent', None)
    while f is not None and not isinstance(f, (ast.FunctionDef, ast.AsyncFunctionDef)):
        f = getattr(f, '_parent', None)
    if f is None:
        return True
    cnt = 0
    stack = list(f.body)
    while stack:
        n = stack.pop()
        if isinstance(n, (ast.FunctionDef, ast.AsyncFunctionDef, ast.Lambda, ast.ClassDef)):
            continue
        if isinstance(n, (ast.Yield, ast.YieldFrom)):
            cnt += 1
        stack.extend(ast.iter_child_nodes(n))
    return cnt > 1


