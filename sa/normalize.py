"""Normalisation of a function before shape rules look at it, so that common behaviour-preserving refactorings vanish:

* `inline`: calls to small helper functions (module-level, nested in the same function, or methods of the same class reached
  through self / cls) that appear as a statement (`h(..)`, `x = h(..)`, `return h(..)`, `yield h(..)`, `yield from g(..)`) are
  replaced by the helper's body, with its locals renamed and its tail-position returns turned into assignments;
* `canon`: equivalent spellings are mapped to one: dict(<generator of pairs>) -> dict comprehension, len(x) > 0 / != 0 -> x,
  len(x) == 0 -> not x, `x = x + c` -> `x += c`, if/else with a negated test -> flipped;
* `reconstruct`: an expression is rewritten with single-assignment temporaries replaced by their definitions.

Everything works on deep copies; the Repo's own trees are never modified.
"""
import ast

from .astcopy import clone
import copy

from .loader import ClassInfo, FuncInfo, own_nodes, set_parents

MAX_HELPER_STMTS = 40


# ---------------------------------------------------------------------- canonical spellings

# positional order of the leading parameters of standard-library functions the repository calls with keywords in some spellings
_STDLIB_SIGNATURES = {
    're.sub': ('pattern', 'repl', 'string', 'count', 'flags'), 're.subn': ('pattern', 'repl', 'string', 'count', 'flags'),
    're.match': ('pattern', 'string', 'flags'), 're.search': ('pattern', 'string', 'flags'), 're.fullmatch': ('pattern', 'string', 'flags'),
    're.compile': ('pattern', 'flags'), 're.findall': ('pattern', 'string', 'flags'), 're.split': ('pattern', 'string', 'maxsplit', 'flags'),
}


class _Canon(ast.NodeTransformer):
    def visit_FunctionDef(self, node):
        self._fn_stack = getattr(self, '_fn_stack', []) + [node.name]
        try:
            self.generic_visit(node)
        finally:
            self._fn_stack = self._fn_stack[:-1]
        return node

    def visit_AnnAssign(self, node):
        self.generic_visit(node)
        # x: T = v  ->  x = v   (the annotation has no effect at run time for a simple store)
        if node.value is not None and isinstance(node.target, (ast.Name, ast.Attribute, ast.Subscript)):
            return ast.copy_location(ast.Assign(targets=[node.target], value=node.value), node)
        return node

    def visit_Call(self, node):
        self.generic_visit(node)
        # getattr(x, 'name') -> x.name
        if isinstance(node.func, ast.Name) and node.func.id == 'getattr' and len(node.args) == 2 and not node.keywords and \
                isinstance(node.args[1], ast.Constant) and isinstance(node.args[1].value, str) and node.args[1].value.isidentifier():
            return ast.copy_location(ast.Attribute(value=node.args[0], attr=node.args[1].value, ctx=ast.Load()), node)
        # re.sub(pattern=p, repl=r, string=s) -> re.sub(p, r, s): the leading parameters of the `re` functions, named
        sig = _STDLIB_SIGNATURES.get(ast.unparse(node.func)) if isinstance(node.func, ast.Attribute) and node.keywords else None
        if sig and not any(isinstance(a, ast.Starred) for a in node.args) and all(k.arg for k in node.keywords):
            kws = {k.arg: k for k in node.keywords}
            i = len(node.args)
            while i < len(sig) and sig[i] in kws:
                node.args.append(kws.pop(sig[i]).value)
                i += 1
            node.keywords = [k for k in node.keywords if k.arg in kws]
        # f(**{'a': x, 'b': y}) -> f(a=x, b=y)
        if any(k.arg is None and isinstance(k.value, ast.Dict) and k.value.keys and
               all(isinstance(kk, ast.Constant) and isinstance(kk.value, str) and kk.value.isidentifier() for kk in k.value.keys)
               for k in node.keywords):
            kws = []
            for k in node.keywords:
                if k.arg is None and isinstance(k.value, ast.Dict) and k.value.keys and \
                        all(isinstance(kk, ast.Constant) and isinstance(kk.value, str) and kk.value.isidentifier() for kk in k.value.keys):
                    kws.extend(ast.keyword(arg=kk.value, value=vv) for kk, vv in zip(k.value.keys, k.value.values))
                else:
                    kws.append(k)
            node.keywords = kws
        # dict(<generator of 2-tuples>) -> {k: v for ...}
        if isinstance(node.func, ast.Name) and node.func.id == 'dict' and len(node.args) == 1 and not node.keywords \
                and isinstance(node.args[0], ast.GeneratorExp):
            g = node.args[0]
            if isinstance(g.elt, ast.Tuple) and len(g.elt.elts) == 2:
                return ast.copy_location(ast.DictComp(key=g.elt.elts[0], value=g.elt.elts[1], generators=g.generators), node)
            if isinstance(g.elt, ast.IfExp) and all(isinstance(x, ast.Tuple) and len(x.elts) == 2 for x in (g.elt.body, g.elt.orelse)):
                k = ast.IfExp(test=g.elt.test, body=g.elt.body.elts[0], orelse=g.elt.orelse.elts[0])
                v = ast.IfExp(test=g.elt.test, body=g.elt.body.elts[1], orelse=g.elt.orelse.elts[1])
                if ast.dump(g.elt.body.elts[0]) == ast.dump(g.elt.orelse.elts[0]):
                    k = g.elt.body.elts[0]
                return ast.copy_location(ast.DictComp(key=k, value=v, generators=g.generators), node)
        return node

    def visit_Compare(self, node):
        self.generic_visit(node)
        if len(node.ops) == 1 and isinstance(node.left, ast.Call) and isinstance(node.left.func, ast.Name) \
                and node.left.func.id == 'len' and len(node.left.args) == 1 and isinstance(node.comparators[0], ast.Constant) \
                and node.comparators[0].value == 0:
            x = node.left.args[0]
            if isinstance(node.ops[0], (ast.Gt, ast.NotEq)):
                return ast.copy_location(x, node)
            if isinstance(node.ops[0], ast.Eq):
                return ast.copy_location(ast.UnaryOp(op=ast.Not(), operand=x), node)
        return node

    def visit_Assign(self, node):
        self.generic_visit(node)
        # `X = {K: _helper(..) for T in S}`  ->  _dc = {}; for T in S: _dc[K] = _helper(..); X = _dc   (same order of evaluation; only
        # where the value is produced by a private module-level helper: the loop form lets the helper be inlined)
        dc = node.value
        if len(node.targets) == 1 and isinstance(dc, ast.DictComp) and len(dc.generators) == 1 and not dc.generators[0].ifs and \
                not dc.generators[0].is_async and isinstance(dc.value, ast.Call) and isinstance(dc.value.func, ast.Name) and \
                dc.value.func.id[:1] == '_' and dc.value.func.id not in getattr(self, '_fn_stack', []):
            g = dc.generators[0]
            store = ast.copy_location(ast.Assign(targets=[ast.Subscript(value=ast.Name(id='_dc', ctx=ast.Load()), slice=dc.key, ctx=ast.Store())],
                                                 value=dc.value), node)
            return [ast.copy_location(ast.Assign(targets=[ast.Name(id='_dc', ctx=ast.Store())], value=ast.Dict(keys=[], values=[])), node),
                    ast.copy_location(ast.For(target=g.target, iter=g.iter, body=[store], orelse=[], type_comment=None), node),
                    ast.copy_location(ast.Assign(targets=node.targets, value=ast.Name(id='_dc', ctx=ast.Load())), node)]
        # `t = A if c else B`  ->  if c: t = A / else: t = B     (single plain target; the value is evaluated before the target)
        if len(node.targets) == 1 and isinstance(node.value, ast.IfExp) and isinstance(node.targets[0], (ast.Name, ast.Attribute)) \
                and (isinstance(node.targets[0], ast.Name) or isinstance(node.targets[0].value, ast.Name)):
            e = node.value
            mk = lambda x: ast.copy_location(ast.Assign(targets=[clone(node.targets[0])], value=x), node)
            return ast.copy_location(ast.If(test=e.test, body=[mk(e.body)], orelse=[mk(e.orelse)]), node)
        if len(node.targets) == 1 and isinstance(node.targets[0], ast.Name) and isinstance(node.value, ast.BinOp) \
                and isinstance(node.value.left, ast.Name) and node.value.left.id == node.targets[0].id:
            return ast.copy_location(ast.AugAssign(target=ast.Name(id=node.targets[0].id, ctx=ast.Store()),
                                                   op=node.value.op, value=node.value.right), node)
        return node

    def visit_For(self, node):
        self.generic_visit(node)
        # `for k in (n := E): BODY`  ->  n = E; for k in n: BODY
        if isinstance(node.iter, ast.NamedExpr) and isinstance(node.iter.target, ast.Name):
            ne = node.iter
            asg = ast.copy_location(ast.Assign(targets=[ast.Name(id=ne.target.id, ctx=ast.Store())], value=ne.value), node)
            node.iter = ast.copy_location(ast.Name(id=ne.target.id, ctx=ast.Load()), ne)
            ast.fix_missing_locations(asg)
            return [asg, node]
        return node

    def visit_While(self, node):
        self.generic_visit(node)
        # `while (x := E) is not None: BODY`  ->  while True: x = E; if x is None: break; BODY   (no else clause: leaving through the
        # test and leaving through break are then the same)
        t = node.test
        ne = t if isinstance(t, ast.NamedExpr) else (t.left if isinstance(t, ast.Compare) and isinstance(t.left, ast.NamedExpr) else None)
        if ne is not None and isinstance(ne.target, ast.Name) and not node.orelse:
            asg = ast.copy_location(ast.Assign(targets=[ast.Name(id=ne.target.id, ctx=ast.Store())], value=ne.value), node)
            nm = ast.copy_location(ast.Name(id=ne.target.id, ctx=ast.Load()), ne)
            if isinstance(t, ast.NamedExpr):
                cond = ast.UnaryOp(op=ast.Not(), operand=nm)
            else:
                t.left = nm
                cond = ast.UnaryOp(op=ast.Not(), operand=t)
                if len(t.ops) == 1 and isinstance(t.ops[0], ast.IsNot):
                    cond = ast.Compare(left=nm, ops=[ast.Is()], comparators=t.comparators)
                elif len(t.ops) == 1 and isinstance(t.ops[0], ast.Is):
                    cond = ast.Compare(left=nm, ops=[ast.IsNot()], comparators=t.comparators)
            brk = ast.copy_location(ast.If(test=cond, body=[ast.copy_location(ast.Break(), node)], orelse=[]), node)
            node.test = ast.copy_location(ast.Constant(value=True), node)
            node.body = [asg, brk] + node.body
            ast.fix_missing_locations(node)
        return node

    def visit_If(self, node):
        self.generic_visit(node)
        # `if (x := E): ...` / `if (x := E) is not None: ...`  ->  x = E; if x ...   (an `if` evaluates its test exactly once)
        t = node.test
        ne = t if isinstance(t, ast.NamedExpr) else (t.left if isinstance(t, ast.Compare) and isinstance(t.left, ast.NamedExpr) else None)
        if ne is not None and isinstance(ne.target, ast.Name):
            asg = ast.copy_location(ast.Assign(targets=[ast.Name(id=ne.target.id, ctx=ast.Store())], value=ne.value), node)
            nm = ast.copy_location(ast.Name(id=ne.target.id, ctx=ast.Load()), ne)
            if isinstance(t, ast.NamedExpr):
                node.test = nm
            else:
                t.left = nm
            return [asg, node]
        if node.orelse and isinstance(node.test, ast.UnaryOp) and isinstance(node.test.op, ast.Not) \
                and not (len(node.orelse) == 1 and isinstance(node.orelse[0], ast.If)):
            node.test, node.body, node.orelse = node.test.operand, node.orelse, node.body
        return node

    def visit_Expr(self, node):
        self.generic_visit(node)
        # `yield A if c else B`  ->  if c: yield A / else: yield B   (the test is evaluated first either way)
        v = node.value
        if isinstance(v, ast.Yield) and isinstance(v.value, ast.IfExp):
            e = v.value
            mk = lambda x: ast.copy_location(ast.Expr(value=ast.copy_location(ast.Yield(value=x), v)), node)
            return ast.copy_location(ast.If(test=e.test, body=[mk(e.body)], orelse=[mk(e.orelse)]), node)
        # `L.extend(E for x in S if C)` / `L.extend([E for x in S if C])`  ->  for x in S: if C: L.append(E)   (L a plain name or
        # self.attr, evaluated once either way; one generator only, so the order of evaluation is the same)
        if isinstance(v, ast.Call) and isinstance(v.func, ast.Attribute) and v.func.attr == 'extend' and len(v.args) == 1 and \
                not v.keywords and isinstance(v.args[0], (ast.GeneratorExp, ast.ListComp)) and len(v.args[0].generators) == 1 and \
                not v.args[0].generators[0].is_async and \
                (isinstance(v.func.value, ast.Name) or (isinstance(v.func.value, ast.Attribute) and isinstance(v.func.value.value, ast.Name))):
            ge = v.args[0]
            g = ge.generators[0]
            app = ast.copy_location(ast.Expr(value=ast.copy_location(ast.Call(
                func=ast.Attribute(value=v.func.value, attr='append', ctx=ast.Load()), args=[ge.elt], keywords=[]), v)), node)
            body = [app]
            for c in reversed(g.ifs):
                body = [ast.copy_location(ast.If(test=c, body=body, orelse=[]), node)]
            return ast.copy_location(ast.For(target=g.target, iter=g.iter, body=body, orelse=[], type_comment=None), node)
        # `yield from (E for x in S if C)`  ->  for x in S: if C: yield E     (same order of evaluation; the only difference, the
        # private scope of the comprehension variable, is invisible unless the function reads that name afterwards)
        if isinstance(v, ast.YieldFrom) and isinstance(v.value, ast.GeneratorExp) and \
                not any(g.is_async for g in v.value.generators):
            ge = v.value
            body = [ast.copy_location(ast.Expr(value=ast.copy_location(ast.Yield(value=ge.elt), v)), node)]
            for g in reversed(ge.generators):
                for c in reversed(g.ifs):
                    body = [ast.copy_location(ast.If(test=c, body=body, orelse=[]), node)]
                body = [ast.copy_location(ast.For(target=g.target, iter=g.iter, body=body, orelse=[], type_comment=None), node)]
            return self.visit(body[0]) if isinstance(body[0], ast.If) else body[0]
        return node

    def visit_Return(self, node):
        self.generic_visit(node)
        dc = node.value
        if isinstance(dc, ast.DictComp) and len(dc.generators) == 1 and not dc.generators[0].ifs and not dc.generators[0].is_async and \
                isinstance(dc.value, ast.Call) and isinstance(dc.value.func, ast.Name) and dc.value.func.id[:1] == '_' and \
                dc.value.func.id not in getattr(self, '_fn_stack', []):
            # `return {K: _helper(..) for T in S}`  ->  _dc = {}; for T in S: _dc[K] = _helper(..); return _dc
            g = dc.generators[0]
            store = ast.copy_location(ast.Assign(targets=[ast.Subscript(value=ast.Name(id='_dc', ctx=ast.Load()), slice=dc.key, ctx=ast.Store())],
                                                 value=dc.value), node)
            return [ast.copy_location(ast.Assign(targets=[ast.Name(id='_dc', ctx=ast.Store())], value=ast.Dict(keys=[], values=[])), node),
                    ast.copy_location(ast.For(target=g.target, iter=g.iter, body=[store], orelse=[], type_comment=None), node),
                    ast.copy_location(ast.Return(value=ast.Name(id='_dc', ctx=ast.Load())), node)]
        # `return [E for x in S if C]`  ->  _ret = []; for x in S: if C: _ret.append(E); return _ret   (same order of evaluation)
        if isinstance(node.value, ast.ListComp) and len(node.value.generators) == 1 and not node.value.generators[0].is_async and \
                isinstance(node.value.elt, ast.Call) and isinstance(node.value.elt.func, ast.Name) and \
                node.value.elt.func.id not in getattr(self, '_fn_stack', []) and node.value.elt.func.id[:1] == '_':
            # (only where the element is produced by a private module-level helper: the loop form lets the helper be inlined)
            lc = node.value
            g = lc.generators[0]
            body = [ast.copy_location(ast.Expr(value=ast.Call(func=ast.Attribute(value=ast.Name(id='_ret', ctx=ast.Load()), attr='append',
                                                                                 ctx=ast.Load()), args=[lc.elt], keywords=[])), node)]
            for c in reversed(g.ifs):
                body = [ast.copy_location(ast.If(test=c, body=body, orelse=[]), node)]
            return [ast.copy_location(ast.Assign(targets=[ast.Name(id='_ret', ctx=ast.Store())], value=ast.List(elts=[], ctx=ast.Load())), node),
                    ast.copy_location(ast.For(target=g.target, iter=g.iter, body=body, orelse=[], type_comment=None), node),
                    ast.copy_location(ast.Return(value=ast.Name(id='_ret', ctx=ast.Load())), node)]
        # `return A if c else B`  ->  if c: return A / else: return B
        if isinstance(node.value, ast.IfExp):
            e = node.value
            mk = lambda x: ast.copy_location(ast.Return(value=x), node)
            return ast.copy_location(ast.If(test=e.test, body=[mk(e.body)], orelse=[mk(e.orelse)]), node)
        return node

    def visit_IfExp(self, node):
        self.generic_visit(node)
        if isinstance(node.test, ast.UnaryOp) and isinstance(node.test.op, ast.Not):
            node.test, node.body, node.orelse = node.test.operand, node.orelse, node.body
        return node


def _unalias_imports(tree):
    """`from functools import partial as _partial` -> `from functools import partial` with every `_partial` read as `partial`, when
    nothing else in the module is called `partial`: rules that recognise a library function by its name see one spelling."""
    if not isinstance(tree, ast.Module):
        return tree
    bound = {}
    for n in ast.walk(tree):
        if isinstance(n, ast.Name) and isinstance(n.ctx, (ast.Store, ast.Del)):
            bound[n.id] = bound.get(n.id, 0) + 1
        elif isinstance(n, ast.arg):
            bound[n.arg] = bound.get(n.arg, 0) + 1
        elif isinstance(n, (ast.FunctionDef, ast.AsyncFunctionDef, ast.ClassDef)):
            bound[n.name] = bound.get(n.name, 0) + 1
        elif isinstance(n, (ast.Import, ast.ImportFrom)):
            for a in n.names:
                nm = a.asname or a.name.split('.')[0]
                bound[nm] = bound.get(nm, 0) + 1
        elif isinstance(n, ast.ExceptHandler) and n.name:
            bound[n.name] = bound.get(n.name, 0) + 1
    mapping = {}
    for st in tree.body:
        if isinstance(st, ast.ImportFrom) and st.level == 0:
            for a in st.names:
                if a.asname and a.asname != a.name and a.name != '*' and bound.get(a.name, 0) == 0 and bound.get(a.asname, 0) == 1 \
                        and a.name not in mapping.values():
                    mapping[a.asname] = a.name
                    a.asname = None
    if not mapping:
        return tree

    class T(ast.NodeTransformer):
        def visit_Name(self, n):
            if n.id in mapping:
                return ast.copy_location(ast.Name(id=mapping[n.id], ctx=n.ctx), n)
            return n
    return T().visit(tree)


def canon(tree):
    t = _Canon().visit(tree)
    t = _unalias_imports(t)
    ast.fix_missing_locations(t)
    return t


# ---------------------------------------------------------------------- inlining

class _Rename(ast.NodeTransformer):
    def __init__(self, mapping):
        self.mapping = mapping

    def visit_Name(self, node):
        if node.id in self.mapping:
            m = self.mapping[node.id]
            if isinstance(m, ast.AST):
                if isinstance(node.ctx, ast.Load):
                    return clone(m)
                return node
            return ast.copy_location(ast.Name(id=m, ctx=node.ctx), node)
        return node

    def visit_arg(self, node):
        # a parameter of a lambda / nested function inside the helper: its uses are renamed with the helper's locals, so is it
        if isinstance(self.mapping.get(node.arg), str):
            node.arg = self.mapping[node.arg]
        return node

    def visit_ExceptHandler(self, node):
        self.generic_visit(node)
        if node.name and isinstance(self.mapping.get(node.name), str):
            node.name = self.mapping[node.name]
        return node


def _bound_names(fnode):
    names = set()
    for n in ast.walk(fnode):
        if isinstance(n, ast.Name) and isinstance(n.ctx, (ast.Store, ast.Del)):
            names.add(n.id)
        elif isinstance(n, ast.ExceptHandler) and n.name:
            names.add(n.name)
    return names


def _tailify(stmts, target):
    """Rewrite tail-position returns into assignments to `target`.  -> new statement list, or None if a return occurs in a
    non-tail position (inside a loop / try / with)."""
    if not stmts:
        return [ast.Assign(targets=[ast.Name(id=target, ctx=ast.Store())], value=ast.Constant(value=None))]
    out = []
    for i, st in enumerate(stmts):
        last = i == len(stmts) - 1
        if isinstance(st, ast.Return):
            out.append(ast.copy_location(ast.Assign(targets=[ast.Name(id=target, ctx=ast.Store())],
                                                    value=st.value or ast.Constant(value=None)), st))
            return out
        if isinstance(st, ast.If):
            body_returns = _always_returns(st.body)
            else_returns = _always_returns(st.orelse) if st.orelse else False
            if body_returns or else_returns or _has_return(st):
                rest = stmts[i + 1:]
                if body_returns and not st.orelse:
                    b = _tailify(st.body, target)
                    o = _tailify(rest, target)
                    if b is None or o is None:
                        return None
                    out.append(ast.copy_location(ast.If(test=st.test, body=b, orelse=o), st))
                    return out
                if body_returns and else_returns:
                    b, o = _tailify(st.body, target), _tailify(st.orelse, target)
                    if b is None or o is None:
                        return None
                    out.append(ast.copy_location(ast.If(test=st.test, body=b, orelse=o), st))
                    return out
                if else_returns and st.orelse and not body_returns:
                    b = _tailify(st.body + rest, target)
                    o = _tailify(st.orelse, target)
                    if b is None or o is None:
                        return None
                    out.append(ast.copy_location(ast.If(test=st.test, body=b, orelse=o), st))
                    return out
                if body_returns and st.orelse and not else_returns:
                    b = _tailify(st.body, target)
                    o = _tailify(st.orelse + rest, target)
                    if b is None or o is None:
                        return None
                    out.append(ast.copy_location(ast.If(test=st.test, body=b, orelse=o), st))
                    return out
                # returns somewhere inside, but neither arm always returns: the rest of the block follows both arms
                b = _tailify(st.body + rest, target)
                o = _tailify(clone(list(st.orelse) + rest), target)
                if b is None or o is None:
                    return None
                out.append(ast.copy_location(ast.If(test=st.test, body=b, orelse=o), st))
                return out
        if isinstance(st, ast.Try) and last and not st.finalbody and not st.orelse and _has_return(st):
            # a try statement in tail position: each of its blocks is in tail position too
            b = _tailify(st.body, target)
            hs = [_tailify(h.body, target) for h in st.handlers]
            if b is None or any(x is None for x in hs):
                return None
            new_handlers = [ast.copy_location(ast.ExceptHandler(type=h.type, name=h.name, body=x), h) for h, x in zip(st.handlers, hs)]
            out.append(ast.copy_location(ast.Try(body=b, handlers=new_handlers, orelse=[], finalbody=[]), st))
            return out
        if _has_return(st):
            return None
        out.append(st)
        if last:
            out.append(ast.copy_location(ast.Assign(targets=[ast.Name(id=target, ctx=ast.Store())],
                                                    value=ast.Constant(value=None)), st))
    return out


def _has_return(st):
    for n in ast.walk(st):
        if isinstance(n, ast.Return):
            return True
        if isinstance(n, (ast.FunctionDef, ast.Lambda)) and n is not st:
            pass
    return False


def _always_returns(stmts):
    if not stmts:
        return False
    last = stmts[-1]
    if isinstance(last, (ast.Return, ast.Raise)):
        return True
    if isinstance(last, ast.If):
        return bool(last.orelse) and _always_returns(last.body) and _always_returns(last.orelse)
    return False


class Inliner:
    def __init__(self, ctx):
        self.ctx = ctx
        self.counter = 0
        self.inlined = []     # (caller qualname, helper qualname)

    def helper_for(self, call, caller):
        """FuncInfo of an inlinable helper for this call, or None."""
        res = self.ctx.res
        if any(isinstance(a, ast.Starred) for a in call.args) or any(k.arg is None for k in call.keywords):
            return None
        f = call.func
        tg = res._resolve_callee(f, caller.module, caller)
        fis = [t for t in tg if isinstance(t, FuncInfo)]
        if len(fis) != 1 or len(tg) != 1:
            return None
        h = fis[0]
        if isinstance(h.node, ast.Lambda) or h is caller or h.module is not caller.module:
            return None
        if h.qualname in getattr(self, 'keep', ()) or h.node.name in getattr(self, 'keep', ()):
            return None
        # same module; helper kinds: module level, nested sibling / child, method of the same class via self / cls / Class
        a = h.node.args
        if a.vararg or a.kwarg or a.posonlyargs:
            return None
        if len(h.node.body) > MAX_HELPER_STMTS:
            return None
        if any(isinstance(n, (ast.FunctionDef, ast.AsyncFunctionDef, ast.ClassDef, ast.Global, ast.Nonlocal))
               for n in ast.walk(h.node) if n is not h.node):
            return None
        # framework entry points and overridable hooks are not helpers
        if h.cls is not None and h.name in ('process_row', 'process_resource', 'process_resources', 'process_datapackage',
                                            '_process', 'get_iterator', '__init__', '__call__', 'prepare_resource',
                                            'write_row', 'write_transformed_row', 'finalize_file', 'initialize_file',
                                            'handle_datapackage', 'write_file_to_output', 'finalize', 'initialize',
                                            'raise_exception', 'safe_process', 'results', 'process'):
            return None
        if h.cls is not None and self.ctx.res.subclasses(h.cls, strict=True) and \
                any(h.name in s.methods for s in self.ctx.res.subclasses(h.cls, strict=True)):
            return None
        return h

    def bind(self, call, h, drop_self):
        """parameter name -> argument expression (or default)"""
        a = h.node.args
        params = [x.arg for x in a.args]
        if drop_self and params:
            params = params[1:]
        binding = {}
        if len(call.args) > len(params):
            return None
        for p, arg in zip(params, call.args):
            binding[p] = arg
        for k in call.keywords:
            if k.arg in binding or (k.arg not in params and k.arg not in [x.arg for x in a.kwonlyargs]):
                return None
            binding[k.arg] = k.value
        defaults = dict(zip([x.arg for x in a.args][len(a.args) - len(a.defaults):], a.defaults))
        for x, d in zip(a.kwonlyargs, a.kw_defaults):
            if d is not None:
                defaults[x.arg] = d
        for p in params + [x.arg for x in a.kwonlyargs]:
            if p not in binding:
                if p in defaults:
                    binding[p] = defaults[p]
                else:
                    return None
        return binding

    def expand(self, call, caller, target, is_generator_ctx):
        """-> list of statements replacing a statement-level call (result assigned to `target` if given), or None."""
        h = None
        if isinstance(call.func, ast.Call) and isinstance(call.func.func, ast.Name) and not call.func.keywords:
            # a closure factory applied on the spot, F(a..)(x..): F is a module-level function whose body is one nested def and
            # `return <that def>`; the call is the nested function's body with F's parameters replaced by a..
            fac = self.ctx.repo.functions.get('%s:%s' % (caller.module.name, call.func.func.id))
            if fac is not None and fac.cls is None and fac.parent is None and not isinstance(fac.node, ast.Lambda):
                fbody = [x for x in fac.node.body if not (isinstance(x, ast.Expr) and isinstance(x.value, ast.Constant))]
                fparams = [a.arg for a in fac.node.args.args]
                if len(fbody) == 2 and isinstance(fbody[0], ast.FunctionDef) and isinstance(fbody[1], ast.Return) and \
                        isinstance(fbody[1].value, ast.Name) and fbody[1].value.id == fbody[0].name and \
                        len(fparams) == len(call.func.args) and not fac.node.args.vararg and not fac.node.args.kwarg and \
                        not (set(fparams) & _bound_names(fbody[0])):
                    env = dict(zip(fparams, call.func.args))
                    g = _SubstNames(env).visit(clone(fbody[0]))
                    ast.fix_missing_locations(g)
                    h = FuncInfo(g, caller.module, fac.qualname + '.' + g.name, None, None)
        if h is None:
            h = self.helper_for(call, caller)
        if h is None:
            return None
        is_gen = h.is_generator
        if is_gen != is_generator_ctx:
            return None
        drop_self = h.cls is not None and 'staticmethod' not in [ast.unparse(d) for d in h.node.decorator_list] and \
            isinstance(call.func, ast.Attribute)
        binding = self.bind(call, h, drop_self)
        if binding is None:
            return None
        self.counter += 1
        suffix = '__i%d' % self.counter
        body = clone(h.node.body)
        # drop docstring
        if body and isinstance(body[0], ast.Expr) and isinstance(body[0].value, ast.Constant) and isinstance(body[0].value.value, str):
            body = body[1:]
        locals_ = _bound_names(h.node) | set(binding)
        mapping = {nm: nm + suffix for nm in locals_}
        pre = []
        for p, arg in binding.items():
            # simple arguments are substituted directly when the parameter is never rebound in the helper
            rebound = p in _bound_names(h.node)
            if isinstance(arg, (ast.Name, ast.Constant, ast.Attribute)) and not rebound:
                mapping[p] = clone(arg)
            else:
                pre.append(ast.Assign(targets=[ast.Name(id=p + suffix, ctx=ast.Store())], value=clone(arg)))
        if is_gen:
            if any(isinstance(n, ast.Return) for st in body for n in ast.walk(st)):
                # `return` directly inside the loop that ends the generator is `break` (nothing follows the loop)
                last = body[-1] if body else None

                def only_in_last_loop():
                    if not isinstance(last, (ast.While, ast.For)) or last.orelse:
                        return False
                    for st_ in body[:-1]:
                        if any(isinstance(n, ast.Return) for n in ast.walk(st_)):
                            return False
                    ok_ = [True]

                    def walk(n, depth_loops):
                        for c_ in ast.iter_child_nodes(n):
                            if isinstance(c_, (ast.FunctionDef, ast.AsyncFunctionDef, ast.Lambda)):
                                continue
                            if isinstance(c_, ast.Return):
                                if c_.value is not None or depth_loops > 0:
                                    ok_[0] = False
                            elif isinstance(c_, (ast.While, ast.For)):
                                walk(c_, depth_loops + 1)
                            elif isinstance(c_, ast.Try) and c_.finalbody:
                                ok_[0] = ok_[0] and not any(isinstance(x, ast.Return) for x in ast.walk(c_))
                            else:
                                walk(c_, depth_loops)
                    walk(last, 0)
                    return ok_[0]
                if not only_in_last_loop():
                    return None

                class _R2B(ast.NodeTransformer):
                    def visit_FunctionDef(self, n):
                        return n

                    def visit_Lambda(self, n):
                        return n

                    def visit_Return(self, n):
                        return ast.copy_location(ast.Break(), n)
                body[-1] = _R2B().visit(last)
            new_body = body
        else:
            tgt = target or ('_ret' + suffix)
            # a helper that ends in a loop and leaves it with a bare `return` (nothing follows the loop): that return is `break`
            last_ = body[-1] if body else None
            if isinstance(last_, (ast.For, ast.While)) and not last_.orelse and \
                    not any(isinstance(n, ast.Return) for st_ in body[:-1] for n in ast.walk(st_)) and \
                    any(isinstance(n, ast.Return) for n in ast.walk(last_)):
                ok_ = [True]

                def walk_(n, depth_loops):
                    for c_ in ast.iter_child_nodes(n):
                        if isinstance(c_, (ast.FunctionDef, ast.AsyncFunctionDef, ast.Lambda)):
                            continue
                        if isinstance(c_, ast.Return):
                            if c_.value is not None or depth_loops > 0:
                                ok_[0] = False
                        elif isinstance(c_, (ast.While, ast.For)):
                            walk_(c_, depth_loops + 1)
                        elif isinstance(c_, ast.Try) and c_.finalbody:
                            ok_[0] = ok_[0] and not any(isinstance(x, ast.Return) for x in ast.walk(c_))
                        else:
                            walk_(c_, depth_loops)
                walk_(last_, 0)
                if ok_[0]:
                    class _R2Bn(ast.NodeTransformer):
                        def visit_FunctionDef(self, n):
                            return n

                        def visit_Lambda(self, n):
                            return n

                        def visit_Return(self, n):
                            return ast.copy_location(ast.Break(), n)
                    body[-1] = _R2Bn().visit(last_)
            new_body = _tailify(body, '__RET__')
            if new_body is None:
                return None
            mapping['__RET__'] = tgt
            # `return <helper local>` as the last statement: let that local BE the result name instead of copying it
            last = new_body[-1] if new_body else None
            if isinstance(last, ast.Assign) and isinstance(last.targets[0], ast.Name) and last.targets[0].id == '__RET__' \
                    and isinstance(last.value, ast.Name) and last.value.id in _bound_names(h.node) \
                    and last.value.id not in binding and \
                    not any(isinstance(n, ast.Name) and n.id == '__RET__' for st_ in new_body[:-1] for n in ast.walk(st_)):
                mapping[last.value.id] = tgt
                new_body = new_body[:-1]
        # the argument expressions belong to the caller's scope: only the helper's body is renamed
        mod = ast.Module(body=new_body, type_ignores=[])
        mod = _Rename(mapping).visit(mod)
        mod.body = pre + mod.body
        for st in mod.body:
            ast.copy_location(st, call)
        ast.fix_missing_locations(mod)
        self.inlined.append((caller.qualname, h.qualname))
        return mod.body

    def inline_block(self, stmts, caller, depth):
        out = []
        for st in stmts:
            rep = None
            if depth > 0:
                if isinstance(st, ast.Expr) and isinstance(st.value, ast.Call):
                    rep = self.expand(st.value, caller, None, False)
                elif isinstance(st, ast.Assign) and len(st.targets) == 1 and isinstance(st.targets[0], ast.Name) \
                        and isinstance(st.value, ast.Call):
                    rep = self.expand(st.value, caller, st.targets[0].id, False)
                elif isinstance(st, ast.Assign) and len(st.targets) == 1 and isinstance(st.value, ast.Call) \
                        and not isinstance(st.targets[0], ast.Name):
                    rep = self.expand(st.value, caller, None, False)
                    if rep is not None:
                        rep, rv = self._result(rep)
                        tg = st.targets[0]
                        import re as _re
                        if isinstance(tg, ast.Tuple) and isinstance(rv, ast.Tuple) and len(tg.elts) == len(rv.elts) and \
                                all(isinstance(t, ast.Name) for t in tg.elts) and \
                                all(isinstance(v, ast.Name) and _re.search(r'__i\d+$', v.id) for v in rv.elts) and \
                                len({v.id for v in rv.elts}) == len(rv.elts) and \
                                not any(isinstance(n, ast.Name) and n.id in {t.id for t in tg.elts} for r_ in rep for n in ast.walk(r_)):
                            # `a, b = helper(..)` with `return x, y` of two helper locals: the locals ARE a and b
                            m_ = ast.Module(body=rep, type_ignores=[])
                            rep = _Rename({v.id: t.id for v, t in zip(rv.elts, tg.elts)}).visit(m_).body
                        else:
                            rep = rep + [ast.copy_location(ast.Assign(targets=st.targets, value=rv), st)]
                elif isinstance(st, ast.Return) and isinstance(st.value, ast.Call):
                    rep = self.expand(st.value, caller, None, False)
                    if rep is not None:
                        rep, rv = self._result(rep)
                        rep = rep + [ast.copy_location(ast.Return(value=rv), st)]
                elif isinstance(st, ast.Expr) and isinstance(st.value, ast.Yield) and isinstance(st.value.value, ast.Call):
                    rep = self.expand(st.value.value, caller, None, False)
                    if rep is not None:
                        rep, rv = self._result(rep)
                        rep = rep + [ast.copy_location(ast.Expr(value=ast.Yield(value=rv)), st)]
                elif isinstance(st, ast.Expr) and isinstance(st.value, ast.YieldFrom) and isinstance(st.value.value, ast.Call):
                    rep = self.expand(st.value.value, caller, None, True)
            if rep is None and depth > 0 and isinstance(st, (ast.Assign, ast.AugAssign, ast.AnnAssign, ast.Return, ast.Expr)):
                rep = self._hoist(st, caller)
            if rep is None and depth > 0 and isinstance(st, ast.If):
                rep = self._hoist(st, caller, field='test')
            if rep is not None:
                for r in rep:
                    ast.fix_missing_locations(r)
                out.extend(self.inline_block(rep, caller, depth - 1))
                continue
            for fld in ('body', 'orelse', 'finalbody'):
                b = getattr(st, fld, None)
                if isinstance(b, list) and b and isinstance(b[0], ast.stmt) and not isinstance(st, (ast.FunctionDef, ast.ClassDef)):
                    setattr(st, fld, self.inline_block(b, caller, depth))
            if isinstance(st, ast.Try):
                for hd in st.handlers:
                    hd.body = self.inline_block(hd.body, caller, depth)
            out.append(st)
        return out

    def _hoist(self, st, caller, field='value'):
        """A call to a branching helper nested inside the expression of a simple statement: `x = [h(a)]` becomes the expanded
        helper followed by `x = [_ret]`.  Only when the call is evaluated unconditionally and nothing with an effect (another
        call, a yield) is evaluated before it in the statement, so the hoisted position is the position it ran at anyway."""
        value = getattr(st, field)
        if value is None:
            return None
        found = []

        def visit(n, conditional):
            if isinstance(n, (ast.Lambda, ast.ListComp, ast.SetComp, ast.DictComp, ast.GeneratorExp)):
                return
            if isinstance(n, ast.IfExp):
                visit(n.test, conditional)
                visit(n.body, True)
                visit(n.orelse, True)
                return
            if isinstance(n, ast.BoolOp):
                visit(n.values[0], conditional)
                for v in n.values[1:]:
                    visit(v, True)
                return
            for c in ast.iter_child_nodes(n):
                visit(c, conditional)
            if isinstance(n, ast.Call):
                found.append((n, conditional))
        visit(value, False)
        effects_before = False
        for call, conditional in found:        # post-order = evaluation order for calls
            if call is value and field == 'value':
                break
            h = None if conditional or effects_before else self.helper_for(call, caller)
            if h is not None and not h.is_generator and _expr_body(h) is None:
                rep = self.expand(call, caller, None, False)
                if rep is not None:
                    tmp = self._last_target(rep)
                    if field == 'test':
                        new_st = copy.copy(st)
                        new_st.test = clone(st.test)
                        holder = new_st.test
                    else:
                        new_st = clone(st)
                        holder = None
                    # replace the call (same position, same dump) in the copy

                    class R(ast.NodeTransformer):
                        done = False

                        def visit_Call(self, n):
                            if not R.done and ast.dump(n) == ast.dump(call) and \
                                    (getattr(n, 'lineno', 0), getattr(n, 'col_offset', 0)) == (getattr(call, 'lineno', 0), getattr(call, 'col_offset', 0)):
                                R.done = True
                                return ast.copy_location(ast.Name(id=tmp, ctx=ast.Load()), n)
                            return self.generic_visit(n)
                    if holder is not None:
                        new_st.test = R().visit(holder)
                    else:
                        new_st = R().visit(new_st)
                    if R.done:
                        return rep + [new_st]
            effects_before = True
        return None

    def _result(self, rep):
        """(statements, result expression) of an expanded helper: when its last statement is `<temp> = <name>` the name itself
        is the result (no copy through a temporary)."""
        tmp = self._last_target(rep)
        if rep and isinstance(rep[-1], ast.Assign) and isinstance(rep[-1].targets[0], ast.Name) and rep[-1].targets[0].id == tmp \
                and not any(isinstance(n, ast.Name) and n.id == tmp for st in rep[:-1] for n in ast.walk(st)):
            # the returned expression is evaluated exactly where the temporary would have been assigned
            return rep[:-1], rep[-1].value
        return rep, ast.Name(id=tmp, ctx=ast.Load())

    def _last_target(self, rep):
        # the name assigned by the tail of an expanded helper
        for st in reversed(rep):
            for n in ast.walk(st):
                if isinstance(n, ast.Assign) and isinstance(n.targets[0], ast.Name) and n.targets[0].id.startswith('_ret__i'):
                    return n.targets[0].id
        return '_ret__i%d' % self.counter


def _literal_pairs_table(ctx, fi, it):
    """The literal tuple / list of pairs a loop iterates: a module constant (Name) or a class attribute (self.X / cls.X / C.X)."""
    table = None
    if isinstance(it, ast.Name):
        for st in fi.module.tree.body:
            if isinstance(st, ast.Assign) and len(st.targets) == 1 and isinstance(st.targets[0], ast.Name) and st.targets[0].id == it.id:
                table = st.value
    elif isinstance(it, ast.Attribute) and isinstance(it.value, ast.Name):
        cls = fi.cls
        f = fi
        while cls is None and f is not None and isinstance(getattr(f, 'parent', None), FuncInfo):
            f = f.parent
            cls = f.cls
        if cls is not None:
            try:
                _k, table = ctx.res.lookup_class_attr(cls, it.attr)
            except Exception:
                table = None
    if isinstance(table, (ast.Tuple, ast.List)) and table.elts and \
            all(isinstance(e, (ast.Tuple, ast.List)) and len(e.elts) == 2 for e in table.elts):
        return table
    return None


class _SubstNames(ast.NodeTransformer):
    def __init__(self, env):
        self.env = env

    def visit_Name(self, n):
        if isinstance(n.ctx, ast.Load) and n.id in self.env:
            return clone(self.env[n.id])
        return n


def unroll_table_dispatch(ctx, fi, stmts):
    """`for a, b in TABLE: if <test on a, b>: <body ending in return / break>` over a literal table of pairs (first match wins)
    is the if / elif chain written in table order: the loop is replaced by that chain, with a and b replaced by the entries.  The
    rules that read chains of isinstance tests (tag tables, isinstance order, dispatch) then see one spelling."""
    out = []
    for st in stmts:
        for fld in ('body', 'orelse', 'finalbody'):
            b = getattr(st, fld, None)
            if isinstance(b, list) and b and isinstance(b[0], ast.stmt):
                setattr(st, fld, unroll_table_dispatch(ctx, fi, b))
        if isinstance(st, ast.Try):
            for h in st.handlers:
                h.body = unroll_table_dispatch(ctx, fi, h.body)
        if isinstance(st, ast.For) and isinstance(st.target, ast.Tuple) and len(st.target.elts) == 2 and \
                all(isinstance(t, ast.Name) for t in st.target.elts) and len(st.body) == 1 and isinstance(st.body[0], ast.If) \
                and not st.body[0].orelse and st.body[0].body and isinstance(st.body[0].body[-1], (ast.Return, ast.Break)):
            table = _literal_pairs_table(ctx, fi, st.iter)
            a, b = st.target.elts[0].id, st.target.elts[1].id
            stores = {n.id for n in ast.walk(st.body[0]) if isinstance(n, ast.Name) and isinstance(n.ctx, ast.Store)}
            if table is not None and not ({a, b} & stores):
                chain = None
                ends_break = isinstance(st.body[0].body[-1], ast.Break)
                tail = list(st.orelse) if ends_break else []
                for e in reversed(table.elts):
                    env = {a: e.elts[0], b: e.elts[1]}
                    test = _SubstNames(env).visit(clone(st.body[0].test))
                    body = [_SubstNames(env).visit(clone(x)) for x in st.body[0].body]
                    if ends_break:
                        body = body[:-1] or [ast.Pass()]
                    node = ast.If(test=test, body=body, orelse=[chain] if chain is not None else tail)
                    chain = ast.copy_location(node, st)
                out.append(chain)
                if not ends_break:
                    out.extend(st.orelse)
                continue
        if isinstance(st, ast.For) and isinstance(st.target, ast.Tuple) and len(st.target.elts) == 2 and \
                all(isinstance(t, ast.Name) for t in st.target.elts) and not st.orelse:
            # plain unrolling: `for a, b in TABLE: BODY` over a literal table is BODY once per entry, in table order - as long as BODY
            # neither leaves the loop by break / continue nor rebinds a or b
            table = _literal_pairs_table(ctx, fi, st.iter)
            a, b = st.target.elts[0].id, st.target.elts[1].id
            leaves = any(isinstance(n, (ast.Break, ast.Continue)) for x in st.body for n in ast.walk(x))
            stores = {n.id for x in st.body for n in ast.walk(x) if isinstance(n, ast.Name) and isinstance(n.ctx, ast.Store)}
            if table is not None and not leaves and not ({a, b} & stores) and len(table.elts) <= 16:
                for e in table.elts:
                    env = {a: e.elts[0], b: e.elts[1]}
                    for x in st.body:
                        out.append(ast.copy_location(_SubstNames(env).visit(clone(x)), st))
                continue
        out.append(st)
    return out


# names the rules themselves look up inside function bodies (they are constants of the library today; a rule that reads them by name
# keeps reading them by name)
_KEEP = {'dataflows.helpers.extended_json': lambda nm: nm.endswith('_FORMAT'),
         'dataflows.processors.stream': lambda nm: nm == 'ACTIVE_SUFFIX'}


def _literal(v):
    if isinstance(v, ast.Constant):
        return True
    if isinstance(v, (ast.Tuple, ast.List)):
        return all(_literal(e) for e in v.elts)
    if isinstance(v, ast.UnaryOp) and isinstance(v.op, ast.USub) and isinstance(v.operand, ast.Constant):
        return True
    return False


def module_literals(module):
    """name -> literal expression, for module-level names bound exactly once, directly in the module body, to a literal (or to
    another such name)."""
    cache = module.__dict__.setdefault('_literals', None)
    if cache is not None:
        return cache
    raw = {}
    for nm, defs in module.defs.items():
        if len(defs) != 1 or not isinstance(defs[0], tuple) or defs[0][0] != 'assign':
            continue
        val, st = defs[0][1], defs[0][2]
        if getattr(st, '_parent', None) is not module.tree or nm.startswith('__') or _KEEP.get(module.name, lambda _n: False)(nm):
            continue
        if isinstance(st, ast.Assign) and (len(st.targets) != 1 or not isinstance(st.targets[0], ast.Name)):
            continue
        raw[nm] = val
    out = {}
    for nm, val in raw.items():
        v, hops = val, 0
        while isinstance(v, ast.Name) and v.id in raw and hops < 4:
            v, hops = raw[v.id], hops + 1
        if _literal(v):
            out[nm] = v
    # a name that some function declares global / rebinds is not a constant
    for n in ast.walk(module.tree):
        if isinstance(n, ast.Global):
            for g in n.names:
                out.pop(g, None)
    module._literals = out
    return out


def fold_module_constants(ctx, fi, node):
    """Replace, in the copy `node` of function fi, loads of module-level literal constants by the literal (unless a local or an
    enclosing function's local of that name hides it): `mode == MODE_REWRITE` reads `mode == 'rewrite'` again."""
    lits = module_literals(fi.module)
    if not lits:
        return node
    hidden = set()
    f = fi
    while f is not None:
        try:
            hidden |= set(ctx.res.local_bindings(f))
        except Exception:
            pass
        f = f.parent if isinstance(f.parent, FuncInfo) else None
    for n in ast.walk(node):
        if isinstance(n, ast.Name) and isinstance(n.ctx, ast.Store):
            hidden.add(n.id)
        elif isinstance(n, ast.arg):
            hidden.add(n.arg)

    class T(ast.NodeTransformer):
        def visit_Name(self, n):
            if isinstance(n.ctx, ast.Load) and n.id in lits and n.id not in hidden:
                return ast.copy_location(clone(lits[n.id]), n)
            return n
    return T().visit(node)


def _pure_test(e):
    """A comparison / boolean combination over plain names and literals only (no calls, attributes, subscripts)."""
    ok_types = (ast.Name, ast.Constant, ast.Compare, ast.BoolOp, ast.UnaryOp, ast.Not, ast.And, ast.Or, ast.Load, ast.Tuple, ast.List,
                ast.Eq, ast.NotEq, ast.Is, ast.IsNot, ast.In, ast.NotIn, ast.Lt, ast.LtE, ast.Gt, ast.GtE)
    if not isinstance(e, (ast.Compare, ast.BoolOp)) and not (isinstance(e, ast.UnaryOp) and isinstance(e.op, ast.Not)):
        return False
    return all(isinstance(n, ok_types) for n in ast.walk(e))


def _scope_stores(fnode):
    """name -> [store nodes] in the function's own body (nested functions excluded; their `nonlocal` names are reported apart)."""
    stores, nonlocal_ = {}, set()
    for n in own_nodes(fnode):
        if isinstance(n, ast.Name) and isinstance(n.ctx, ast.Store):
            stores.setdefault(n.id, []).append(n)
        elif isinstance(n, ast.arg):
            pass
    for n in ast.walk(fnode):
        if isinstance(n, (ast.Nonlocal, ast.Global)):
            nonlocal_ |= set(n.names)
    return stores, nonlocal_


def _flags_of(fnode):
    """Flag locals of one function: names stored exactly once, by `name = <pure test>`, whose operand names are not stored again
    after that statement (and never through nonlocal): the flag always equals the test it was assigned from."""
    stores, nonlocal_ = _scope_stores(fnode)
    params = {a.arg for a in fnode.args.posonlyargs + fnode.args.args + fnode.args.kwonlyargs} if hasattr(fnode, 'args') else set()
    out = {}
    for n in own_nodes(fnode):
        if isinstance(n, ast.Assign) and len(n.targets) == 1 and isinstance(n.targets[0], ast.Name) and _pure_test(n.value):
            nm = n.targets[0].id
            if len(stores.get(nm, [])) != 1 or nm in nonlocal_ or nm in params:
                continue
            ok = True
            for o in ast.walk(n.value):
                if isinstance(o, ast.Name):
                    if o.id in nonlocal_ or o.id == nm:
                        ok = False
                    for st in stores.get(o.id, []):
                        if getattr(st, 'lineno', 0) > n.lineno or (getattr(st, 'lineno', 0) == n.lineno and st is not n.targets[0]):
                            # re-stored later - unless both sit in the same loop body and the store comes first in it (recomputed
                            # together on every iteration): handled by requiring the store not to follow the flag textually
                            ok = False
            if ok:
                out[nm] = n.value
    return out


def fold_flags(ctx, fi, node):
    """Replace loads of flag locals (of the function itself and of the functions enclosing it) by the test they stand for:
    `inner_join = mode == 'inner'` ... `if inner_join:` reads `if mode == 'inner':` again."""
    env = dict(_flags_of(node))
    own_bound = {n.id for n in ast.walk(node) if isinstance(n, ast.Name) and isinstance(n.ctx, ast.Store)} | \
        {a.arg for a in ast.walk(node) if isinstance(a, ast.arg)}
    f = fi.parent if isinstance(fi.parent, FuncInfo) else None
    while f is not None:
        if not isinstance(f.node, ast.Lambda):
            for nm, v in _flags_of(f.node).items():
                if nm not in own_bound and nm not in env and not ({x.id for x in ast.walk(v) if isinstance(x, ast.Name)} & own_bound):
                    env[nm] = v
        f = f.parent if isinstance(f.parent, FuncInfo) else None
    if not env:
        return node

    class T(ast.NodeTransformer):
        def visit_Name(self, n):
            if isinstance(n.ctx, ast.Load) and n.id in env:
                return ast.copy_location(clone(env[n.id]), n)
            return n
    return T().visit(node)


def sentinel_pulls(fi, node):
    """Explicit iterator protocol brought back to the loop forms (in place; parent links must be set, and are left stale):

    * `it = iter(E)` ... `for x in it:`                                         ->  `for x in E:`
    * `it = iter(E)` ... `for a in A: b = next(it, S); if b is S: break; ...`   ->  `for a, b in zip(A, E): ...`
    * `it = iter(E)` ... `while next(it, S) is not S: continue`                 ->  `for _ in E: pass`

    where `it` is bound once, used only there, bound in the same block with only other such bindings in between, and S is a name bound
    once (in the module or the function) to `object()` - a value no iterator can deliver, so `is S` means "exhausted" exactly."""
    sentinels = set()
    for st in fi.module.tree.body:
        if isinstance(st, ast.Assign) and len(st.targets) == 1 and isinstance(st.targets[0], ast.Name) and \
                isinstance(st.value, ast.Call) and ast.unparse(st.value) == 'object()':
            sentinels.add(st.targets[0].id)
    binds, loads = {}, {}
    for n in own_nodes(node):
        if isinstance(n, ast.Name):
            (binds if isinstance(n.ctx, ast.Store) else loads).setdefault(n.id, []).append(n)
    for nm, bs in binds.items():
        par = getattr(bs[0], '_parent', None)
        if len(bs) == 1 and isinstance(par, ast.Assign) and par.targets == [bs[0]] and ast.unparse(par.value) == 'object()':
            sentinels.add(nm)
    sentinels = {s_ for s_ in sentinels if len(binds.get(s_, [])) <= 1}
    iters = {}
    for nm, bs in binds.items():
        par = getattr(bs[0], '_parent', None)
        if len(bs) == 1 and isinstance(par, ast.Assign) and par.targets == [bs[0]] and isinstance(par.value, ast.Call) and \
                isinstance(par.value.func, ast.Name) and par.value.func.id == 'iter' and len(par.value.args) == 1 and not par.value.keywords \
                and len(loads.get(nm, [])) == 1:
            iters[nm] = par

    def block_of_(st):
        par = getattr(st, '_parent', None)
        for fld in ('body', 'orelse', 'finalbody'):
            blk = getattr(par, fld, None)
            if isinstance(blk, list) and any(st is x for x in blk):
                return blk
        return None

    def adjacent(assign, loop):
        """assign precedes loop in one block, with only other iter-bindings in between"""
        blk = block_of_(assign)
        if blk is None or not any(loop is x for x in blk):
            return False
        i, j = [k for k, x in enumerate(blk) if x is assign][0], [k for k, x in enumerate(blk) if x is loop][0]
        return i < j and all(any(x is a_ for a_ in iters.values()) for x in blk[i + 1:j])

    def is_pull(e, want=None):
        return isinstance(e, ast.Call) and isinstance(e.func, ast.Name) and e.func.id == 'next' and len(e.args) == 2 and not e.keywords and \
            isinstance(e.args[0], ast.Name) and e.args[0].id in iters and isinstance(e.args[1], ast.Name) and e.args[1].id in sentinels
    drop = []
    for lp in [n for n in own_nodes(node) if isinstance(n, (ast.For, ast.While))]:
        if isinstance(lp, ast.For) and len(lp.body) >= 3 and not lp.orelse:
            a0, a1 = lp.body[0], lp.body[1]
            if isinstance(a0, ast.Assign) and len(a0.targets) == 1 and isinstance(a0.targets[0], ast.Name) and is_pull(a0.value) and \
                    isinstance(a1, ast.If) and not a1.orelse and len(a1.body) == 1 and isinstance(a1.body[0], ast.Break) and \
                    isinstance(a1.test, ast.Compare) and len(a1.test.ops) == 1 and isinstance(a1.test.ops[0], ast.Is) and \
                    ast.unparse(a1.test.left) == a0.targets[0].id and ast.unparse(a1.test.comparators[0]) == a0.value.args[1].id and \
                    len(binds.get(a0.targets[0].id, [])) == 1:
                itn = a0.value.args[0].id
                if adjacent(iters[itn], lp):
                    lp.target = ast.Tuple(elts=[lp.target, ast.Name(id=a0.targets[0].id, ctx=ast.Store())], ctx=ast.Store())
                    lp.iter = ast.Call(func=ast.Name(id='zip', ctx=ast.Load()), args=[lp.iter, iters[itn].value.args[0]], keywords=[])
                    lp.body = lp.body[2:]
                    drop.append(iters[itn])
        if isinstance(lp, ast.While) and not lp.orelse and all(isinstance(x, (ast.Continue, ast.Pass)) for x in lp.body):
            t = lp.test
            if isinstance(t, ast.Compare) and len(t.ops) == 1 and isinstance(t.ops[0], ast.IsNot) and is_pull(t.left) and \
                    ast.unparse(t.comparators[0]) == t.left.args[1].id:
                itn = t.left.args[0].id
                if adjacent(iters[itn], lp):
                    new = ast.For(target=ast.Name(id='_', ctx=ast.Store()), iter=iters[itn].value.args[0], body=[ast.Pass()], orelse=[])
                    ast.copy_location(new, lp)
                    blk = block_of_(lp)
                    blk[[k for k, x in enumerate(blk) if x is lp][0]] = new
                    drop.append(iters[itn])
    for lp in [n for n in own_nodes(node) if isinstance(n, ast.For)]:
        it = lp.iter
        if isinstance(it, ast.Call) and isinstance(it.func, ast.Name) and it.func.id == 'zip' and it.args and isinstance(it.args[0], ast.Name):
            it = it.args[0]
            if it.id in iters and not any(iters[it.id] is d for d in drop) and adjacent(iters[it.id], lp):
                lp.iter.args[0] = iters[it.id].value.args[0]
                drop.append(iters[it.id])
        elif isinstance(it, ast.Name) and it.id in iters and not any(iters[it.id] is d for d in drop) and adjacent(iters[it.id], lp):
            lp.iter = iters[it.id].value.args[0]
            drop.append(iters[it.id])
    for a in drop:
        blk = block_of_(a)
        if blk is not None:
            blk[:] = [x for x in blk if x is not a]
    return bool(drop)


def renest_helpers(ctx, nf, depth=2):
    """A view of nf in which the module-level functions of its own module that it calls (and they call, to `depth`) stand inside it
    as nested definitions again, their parameters named like the arguments they are called with (where those are plain names and all
    call sites agree): the reverse of "move a nested function to module level with explicit parameters".  Clauses that look at the
    nested functions of a factory / method then see the same code in both spellings.  Calls are left as they are."""
    mod = nf.module
    node = clone(nf.node)
    added = set()
    for _ in range(depth):
        sites = {}
        for c in ast.walk(node):
            if isinstance(c, ast.Call) and isinstance(c.func, ast.Name) and c.func.id not in added:
                f = ctx.repo.func('%s:%s' % (mod.name, c.func.id), None)
                if f is not None and not isinstance(f.node, ast.Lambda) and f.parent is None and f.cls is None:
                    sites.setdefault(c.func.id, (f, []))[1].append(c)
        if not sites:
            break
        new_defs = []
        for name, (f, calls) in sorted(sites.items()):
            params = [a.arg for a in f.node.args.args]
            mapping = {}
            ok = not f.node.args.vararg and not f.node.args.kwarg and not f.node.args.kwonlyargs
            for i, p in enumerate(params):
                argn = set()
                for c in calls:
                    a = c.args[i] if i < len(c.args) and not isinstance(c.args[i], ast.Starred) else \
                        next((k.value for k in c.keywords if k.arg == p), None)
                    argn.add(a.id if isinstance(a, ast.Name) else None)
                if len(argn) == 1 and None not in argn:
                    mapping[p] = argn.pop()
            fn = clone(f.node)
            mapping = {p: a for p, a in mapping.items() if p != a and a not in params}
            if ok and mapping:
                fn = _Rename(dict(mapping)).visit(fn)
            new_defs.append(fn)
            added.add(name)
        k = 0
        while k < len(node.body) and isinstance(node.body[k], ast.Expr) and isinstance(node.body[k].value, ast.Constant):
            k += 1
        node.body[k:k] = new_defs
    if not added:
        return nf
    ast.fix_missing_locations(node)
    set_parents(node)
    node._parent = getattr(nf.node, '_parent', None)
    out = FuncInfo(node, nf.module, nf.qualname, nf.parent, nf.cls)
    out.inlined = list(getattr(nf, 'inlined', []))
    ctx.repo.func_of_node[id(node)] = out
    return out


def genexp_loops(node):
    """`sel = (x for x in S if C)` ... `for x in sel: BODY`  ->  `for x in S: if C: BODY`   (in place; parent links must be set and are
    left stale).  The generator expression is bound once and used once, as the iterable of a loop that follows it in the same block;
    it has one `for` clause.  The loop then runs the same tests and the same body in the same order."""
    binds, loads = {}, {}
    for n in own_nodes(node):
        if isinstance(n, ast.Name):
            (binds if isinstance(n.ctx, ast.Store) else loads).setdefault(n.id, []).append(n)
    done = False
    for lp in [n for n in own_nodes(node) if isinstance(n, ast.For)]:
        it = lp.iter
        assign = None
        if isinstance(it, ast.Name) and len(binds.get(it.id, [])) == 1 and len(loads.get(it.id, [])) == 1:
            a = getattr(binds[it.id][0], '_parent', None)
            if isinstance(a, ast.Assign) and a.targets == [binds[it.id][0]] and isinstance(a.value, ast.GeneratorExp):
                par = getattr(a, '_parent', None)
                blk = None
                for fld in ('body', 'orelse', 'finalbody'):
                    b = getattr(par, fld, None)
                    if isinstance(b, list) and any(a is x for x in b) and any(lp is x for x in b):
                        blk = b
                if blk is not None and [i for i, x in enumerate(blk) if x is a][0] < [i for i, x in enumerate(blk) if x is lp][0]:
                    assign, it = (a, blk), a.value
        if not isinstance(it, ast.GeneratorExp) or len(it.generators) != 1 or it.generators[0].is_async:
            continue
        g = it.generators[0]
        body = list(lp.body)
        if not (isinstance(it.elt, ast.Name) and isinstance(g.target, ast.Name) and isinstance(lp.target, ast.Name)
                and it.elt.id == g.target.id):
            body = [ast.Assign(targets=[lp.target], value=it.elt)] + body
            new_target = g.target
        else:
            new_target = ast.Name(id=lp.target.id, ctx=ast.Store())
            if lp.target.id != g.target.id:
                # the clause variable is read as the loop variable
                class R(ast.NodeTransformer):
                    def visit_Name(self, n, a_=g.target.id, b_=lp.target.id):
                        return ast.copy_location(ast.Name(id=b_, ctx=n.ctx), n) if n.id == a_ else n
                g = ast.comprehension(target=new_target, iter=g.iter, ifs=[R().visit(c) for c in g.ifs], is_async=0)
        for cond in reversed(g.ifs):
            body = [ast.If(test=cond, body=body, orelse=[])]
        lp.target, lp.iter, lp.body = new_target, g.iter, body
        if assign is not None:
            assign[1][:] = [x for x in assign[1] if x is not assign[0]]
        done = True
    return done


def callee_chosen_first(node):
    """`if c: f, kw = A, {}` / `else: f, kw = B, {'k': v}` followed by `x = f(a, **kw)`  ->  the call moved into both branches with the
    callee (and the keyword dict) each branch chose: `x = A(a)` / `x = B(a, k=v)`.  The names are bound only in the two branches (as
    their last statements) and used only in the statement that follows the `if`.  In place; parent links must be set, left stale."""
    done = False
    for blk_owner in [node] + [n for n in own_nodes(node)]:
        for fld in ('body', 'orelse', 'finalbody'):
            blk = getattr(blk_owner, fld, None)
            if not (isinstance(blk, list) and blk and isinstance(blk[0], ast.stmt)):
                continue
            i = 0
            while i + 1 < len(blk):
                iff, nxt = blk[i], blk[i + 1]
                i += 1
                if not (isinstance(iff, ast.If) and iff.body and iff.orelse and isinstance(nxt, (ast.Assign, ast.Expr))):
                    continue

                def chosen(branch):
                    last = branch[-1]
                    if not (isinstance(last, ast.Assign) and len(last.targets) == 1):
                        return None
                    t, v = last.targets[0], last.value
                    if isinstance(t, ast.Name):
                        return {t.id: v}
                    if isinstance(t, ast.Tuple) and isinstance(v, ast.Tuple) and len(t.elts) == len(v.elts) and \
                            all(isinstance(x, ast.Name) for x in t.elts):
                        return {x.id: y for x, y in zip(t.elts, v.elts)}
                    return None
                ca, cb = chosen(iff.body), chosen(iff.orelse)
                if not ca or not cb or set(ca) != set(cb):
                    continue
                calls = [c for c in ast.walk(nxt) if isinstance(c, ast.Call) and isinstance(c.func, ast.Name) and c.func.id in ca]
                if len(calls) != 1:
                    continue
                call = calls[0]
                names = set(ca)
                used_in_next = {n.id for n in ast.walk(nxt) if isinstance(n, ast.Name) and n.id in names}
                elsewhere = [n for n in own_nodes(node) if isinstance(n, ast.Name) and n.id in names
                             and not any(n is x for x in ast.walk(nxt)) and not any(n is x for x in ast.walk(iff.body[-1]))
                             and not any(n is x for x in ast.walk(iff.orelse[-1]))]
                kwn = [k for k in call.keywords if k.arg is None and isinstance(k.value, ast.Name) and k.value.id in names]
                if elsewhere or used_in_next != names or len(kwn) != len(names) - 1:
                    continue
                if any(not (isinstance(ch[k.value.id], ast.Dict) and all(isinstance(kk, ast.Constant) and isinstance(kk.value, str)
                                                                            for kk in ch[k.value.id].keys)) for ch in (ca, cb) for k in kwn):
                    continue

                def build(ch):
                    st = clone(nxt)
                    c2 = [c for c in ast.walk(st) if isinstance(c, ast.Call) and isinstance(c.func, ast.Name) and c.func.id == call.func.id][0]
                    c2.func = clone(ch[call.func.id])
                    kws = []
                    for k in c2.keywords:
                        if k.arg is None and isinstance(k.value, ast.Name) and k.value.id in names:
                            d = ch[k.value.id]
                            kws.extend(ast.keyword(arg=kk.value, value=clone(vv)) for kk, vv in zip(d.keys, d.values))
                        else:
                            kws.append(k)
                    c2.keywords = kws
                    return st
                iff.body = iff.body[:-1] + [build(ca)]
                iff.orelse = iff.orelse[:-1] + [build(cb)]
                del blk[i]
                done = True
    return done


def normalized(ctx, fi, depth=2, do_canon=True, keep=()):
    """A FuncInfo whose node is a normalised deep copy of fi.node (helpers inlined, canonical spellings)."""
    cache = ctx.__dict__.setdefault('_norm_cache', {})
    key = (fi.qualname, depth, do_canon, tuple(sorted(keep)))
    if key in cache:
        return cache[key]
    if isinstance(fi.node, ast.Lambda):
        cache[key] = fi
        return fi
    node = clone(fi.node)
    inl = Inliner(ctx)
    inl.keep = set(keep)
    # resolution of calls inside the copy needs parent links and function tables: work on the original for resolution by
    # mapping each copied call back to its original through position
    orig_calls = {}
    # all calls of the module: the body of an inlined helper brings calls from that helper's source position with it
    for n in ast.walk(fi.module.tree):
        if isinstance(n, ast.Call):
            orig_calls[(n.lineno, n.col_offset, ast.dump(n.func))] = n

    class _CallerProxy:
        pass
    node.body = unroll_table_dispatch(ctx, fi, node.body)
    ast.fix_missing_locations(node)
    node.body = _inline_with_originals(ctx, inl, node.body, fi, orig_calls, depth)
    node = _inline_expression_helpers(ctx, inl, node, fi, orig_calls)
    node = fold_module_constants(ctx, fi, node)
    node = fold_flags(ctx, fi, node)
    node = propagate_path_aliases(node)
    if do_canon:
        node = canon(node)
    ast.fix_missing_locations(node)
    set_parents(node)
    if sentinel_pulls(fi, node):
        ast.fix_missing_locations(node)
        set_parents(node)
    if genexp_loops(node):
        ast.fix_missing_locations(node)
        set_parents(node)
    if callee_chosen_first(node):
        ast.fix_missing_locations(node)
        set_parents(node)
    node._parent = getattr(fi.node, '_parent', None)
    nf = FuncInfo(node, fi.module, fi.qualname, fi.parent, fi.cls)
    nf.inlined = list(inl.inlined)
    ctx.repo.func_of_node[id(node)] = nf
    _index_nested(ctx, node, nf, fi)
    cache[key] = nf
    return nf


def _inline_with_originals(ctx, inl, stmts, fi, orig_calls, depth):
    """Resolve callee through the original call node (which has parent links), expand on the copy."""
    orig_helper_for = inl.helper_for

    def helper_for(call, caller):
        k = (getattr(call, 'lineno', None), getattr(call, 'col_offset', None), ast.dump(call.func))
        o = orig_calls.get(k)
        if o is None:
            # a call synthesised by a rewrite (unrolled table dispatch): its callee is a plain module-level name
            if isinstance(call.func, ast.Name) and not hasattr(call.func, '_parent'):
                h = ctx.repo.functions.get('%s:%s' % (caller.module.name, call.func.id))
                if h is not None and h.cls is None and h.parent is None:
                    probe = ast.Call(func=ast.Name(id=call.func.id, ctx=ast.Load()), args=call.args, keywords=call.keywords)
                    probe.func._parent = caller.module.tree
                    try:
                        return orig_helper_for(probe, caller)
                    except Exception:
                        return None
            return None
        return orig_helper_for(o, caller)
    inl.helper_for = helper_for
    return inl.inline_block(stmts, fi, depth)


def _expr_body(h):
    """For a helper whose body is straight-line `name = expr` statements followed by `return expr`: the returned expression with
    those temporaries substituted; else None."""
    body = list(h.node.body)
    if body and isinstance(body[0], ast.Expr) and isinstance(body[0].value, ast.Constant) and isinstance(body[0].value.value, str):
        body = body[1:]
    if not body or not isinstance(body[-1], ast.Return) or body[-1].value is None:
        return None
    env = {}
    for st in body[:-1]:
        if isinstance(st, ast.Assign) and len(st.targets) == 1 and isinstance(st.targets[0], ast.Name) \
                and st.targets[0].id not in env and st.targets[0].id not in [a.arg for a in h.node.args.args]:
            env[st.targets[0].id] = _Rename({k: v for k, v in env.items()}).visit(clone(st.value))
        else:
            return None
    return _Rename(env).visit(clone(body[-1].value))


def _inline_expression_helpers(ctx, inl, node, fi, orig_calls):
    """Calls that occur inside larger expressions (comprehensions, arguments) to helpers that merely compute an expression."""
    class T(ast.NodeTransformer):
        def visit_Call(self, call):
            self.generic_visit(call)
            k = (getattr(call, 'lineno', None), getattr(call, 'col_offset', None), ast.dump(call.func))
            o = orig_calls.get(k)
            if o is None:
                return call
            h = Inliner.helper_for(inl, o, fi) if False else None
            return call
    # resolve through the original call nodes (they carry the parent links the resolver needs)
    originals = dict(orig_calls)
    base_helper_for = Inliner.helper_for

    class T2(ast.NodeTransformer):
        def visit_Call(self, call):
            self.generic_visit(call)
            k = (getattr(call, 'lineno', None), getattr(call, 'col_offset', None), ast.dump(call.func))
            o = originals.get(k)
            if o is None:
                return call
            h = base_helper_for(inl, o, fi)
            if h is None or h.is_generator:
                return call
            e = _expr_body(h)
            if e is None:
                return call
            drop_self = h.cls is not None and 'staticmethod' not in [ast.unparse(d) for d in h.node.decorator_list] and \
                isinstance(call.func, ast.Attribute)
            binding = inl.bind(call, h, drop_self)
            if binding is None:
                return call
            # comprehension variables of the helper must not capture: rename them
            inl.counter += 1
            suffix = '__e%d' % inl.counter
            bound = {n.id for n in ast.walk(e) if isinstance(n, ast.Name) and isinstance(n.ctx, ast.Store)}
            mapping = {b: b + suffix for b in bound}
            mapping.update({p: clone(a) for p, a in binding.items()})
            out = _Rename(mapping).visit(e)
            inl.inlined.append((fi.qualname, h.qualname))
            return ast.copy_location(out, call)
    return T2().visit(node)


def _index_nested(ctx, node, nf, orig):
    """Register FuncInfos for nested defs / lambdas of a normalised copy so that enclosing_func() works on it."""
    def visit(n, parent_fi, qual):
        for c in ast.iter_child_nodes(n):
            if isinstance(c, (ast.FunctionDef, ast.AsyncFunctionDef)):
                q = '%s.%s' % (qual, c.name)
                f = FuncInfo(c, orig.module, q, parent_fi, None)
                ctx.repo.func_of_node[id(c)] = f
                visit(c, f, q)
            elif isinstance(c, ast.Lambda):
                q = '%s.<lambda@%d:%d>' % (qual, c.lineno, c.col_offset)
                f = FuncInfo(c, orig.module, q, parent_fi, None)
                ctx.repo.func_of_node[id(c)] = f
                visit(c, f, q)
            else:
                visit(c, parent_fi, qual)
    visit(node, nf, nf.qualname)


# ---------------------------------------------------------------------- copy propagation

def reconstruct(expr, fnode, depth=0, _seen=None):
    """Copy of `expr` with names that have exactly one plain assignment in `fnode` replaced by that value (recursively)."""
    _seen = _seen or set()
    if depth > 5:
        return expr
    counts = {}
    vals = {}
    for n in ast.walk(fnode):
        if isinstance(n, ast.Assign):
            for t in n.targets:
                for x in ast.walk(t):
                    if isinstance(x, ast.Name):
                        counts[x.id] = counts.get(x.id, 0) + (1 if x is t else 2)
                        if x is t:
                            vals[x.id] = n.value
        elif isinstance(n, (ast.AugAssign, ast.AnnAssign)):
            t = n.target
            if isinstance(t, ast.Name):
                counts[t.id] = counts.get(t.id, 0) + 2
        elif isinstance(n, (ast.For, ast.comprehension)):
            for x in ast.walk(n.target):
                if isinstance(x, ast.Name):
                    counts[x.id] = counts.get(x.id, 0) + 2
        elif isinstance(n, ast.arg):
            counts[n.arg] = counts.get(n.arg, 0) + 2
        elif isinstance(n, ast.withitem) and n.optional_vars is not None:
            for x in ast.walk(n.optional_vars):
                if isinstance(x, ast.Name):
                    counts[x.id] = counts.get(x.id, 0) + 2
        elif isinstance(n, ast.ExceptHandler) and n.name:
            counts[n.name] = counts.get(n.name, 0) + 2

    class R(ast.NodeTransformer):
        def visit_Name(self, node):
            if isinstance(node.ctx, ast.Load) and counts.get(node.id) == 1 and node.id in vals and node.id not in _seen:
                v = vals[node.id]
                if any(isinstance(x, ast.Name) and x.id == node.id for x in ast.walk(v)):
                    return node
                if isinstance(v, (ast.Yield, ast.YieldFrom, ast.Await)):
                    return node
                return reconstruct(clone(v), fnode, depth + 1, _seen | {node.id})
            return node
    out = R().visit(clone(expr))
    ast.fix_missing_locations(out)
    return out


def reaching_value(stmt_or_expr, name):
    """Value of the closest plain assignment to `name` that precedes the node in its own or an enclosing block, or None."""
    cur = stmt_or_expr
    while getattr(cur, '_parent', None) is not None:
        parent = cur._parent
        for fld in ('body', 'orelse', 'finalbody'):
            blk = getattr(parent, fld, None)
            if isinstance(blk, list) and cur in blk:
                for st in reversed(blk[:blk.index(cur)]):
                    if isinstance(st, ast.Assign) and any(isinstance(t, ast.Name) and t.id == name for t in st.targets):
                        return st.value
                    if any(isinstance(x, ast.Assign) and any(isinstance(t, ast.Name) and t.id == name for t in x.targets)
                           for x in ast.walk(st)):
                        return None
        if isinstance(parent, (ast.FunctionDef, ast.AsyncFunctionDef, ast.Lambda)):
            return None
        cur = parent
    return None


def resolve_here(expr, depth=0, _skip=frozenset()):
    """`expr` with every Name replaced by its reaching assignment (closest preceding assignment in an enclosing block),
    recursively.  A definition that mentions the name it defines (`row = f(row)`) is substituted once; the inner occurrence
    then denotes the previous binding and is left alone.  Needs parent links."""
    if depth > 6:
        return clone(expr)
    anchor = expr
    while getattr(anchor, '_parent', None) is not None and not isinstance(anchor, ast.stmt):
        anchor = anchor._parent

    # only temporaries defined inside the innermost loop around the expression are resolved (when there is such a loop):
    # names set up before the loop (parameters rebound once, configuration) keep their names
    scope_loop = None
    q = anchor
    while getattr(q, '_parent', None) is not None:
        q = q._parent
        if isinstance(q, (ast.For, ast.While)):
            scope_loop = q
            break
        if isinstance(q, (ast.FunctionDef, ast.AsyncFunctionDef, ast.Lambda)):
            break

    def in_scope(v):
        if scope_loop is None:
            return True
        x = v
        while getattr(x, '_parent', None) is not None:
            x = x._parent
            if x is scope_loop:
                return True
        return False

    def res(node, anchor_stmt, skip, d):
        if d > 6:
            return clone(node)

        class R(ast.NodeTransformer):
            def visit_Name(self, n):
                if isinstance(n.ctx, ast.Load) and n.id not in skip:
                    v = reaching_value(anchor_stmt, n.id)
                    if v is not None and not in_scope(v):
                        v = None
                    if v is not None and not isinstance(v, (ast.Yield, ast.YieldFrom, ast.Await)):
                        st = v
                        while getattr(st, '_parent', None) is not None and not isinstance(st, ast.stmt):
                            st = st._parent
                        inner_skip = skip | ({n.id} if any(isinstance(x, ast.Name) and x.id == n.id for x in ast.walk(v)) else set())
                        return res(v, st, inner_skip, d + 1)
                return n
        out = R().visit(clone(node))
        return out
    out = res(expr, anchor, set(_skip), depth)
    ast.fix_missing_locations(out)
    return out


# ---------------------------------------------------------------------- file idioms (opt-in; used by the ordering rules of the dumpers)

def file_idioms(ctx, nf):
    """Two spellings of writing a file, brought to the one the ordering rules name (applied to a normalised copy, in place):

    * `with <call> as f: BODY`  ->  `f = <call>; BODY; f.close()`  - leaving the block normally closes f after BODY, which is all
      the ordering rules ask about (they never require a close on a failure path);
    * `s = json.dumps(D, **kw)` ... `f.write(s)`  ->  `json.dump(D, f, **kw)` at the place of the write (json.dump is specified as
      exactly that: serialise, then write the text to the file object).
    """
    node = nf.node
    changed = [False]

    class W(ast.NodeTransformer):
        def visit_FunctionDef(self, n):
            if n is not node:
                return n
            self.generic_visit(n)
            return n

        def visit_Lambda(self, n):
            return n

        def visit_With(self, n):
            self.generic_visit(n)
            if len(n.items) == 1 and isinstance(n.items[0].context_expr, ast.Call) and isinstance(n.items[0].optional_vars, ast.Name):
                f = n.items[0].optional_vars.id
                a = ast.copy_location(ast.Assign(targets=[ast.Name(id=f, ctx=ast.Store())], value=n.items[0].context_expr), n)
                last = n.body[-1]
                c = ast.copy_location(ast.Expr(value=ast.Call(func=ast.Attribute(value=ast.Name(id=f, ctx=ast.Load()), attr='close',
                                                                                ctx=ast.Load()), args=[], keywords=[])), last)
                c.lineno = getattr(last, 'end_lineno', last.lineno)
                changed[0] = True
                return [a] + n.body + [c]
            return n
    W().visit(node)
    ast.fix_missing_locations(node)
    # json.dumps + write
    binds = {}
    for a in own_nodes(node):
        if isinstance(a, ast.Assign) and len(a.targets) == 1 and isinstance(a.targets[0], ast.Name):
            binds.setdefault(a.targets[0].id, []).append(a.value)

    def dumps_of(e):
        if isinstance(e, ast.Name) and len(binds.get(e.id, [])) == 1:
            e = binds[e.id][0]
        if isinstance(e, ast.Call) and isinstance(e.func, ast.Attribute) and e.func.attr == 'dumps' and \
                isinstance(e.func.value, ast.Name) and e.func.value.id == 'json' and e.args:
            return e
        return None
    for c in list(own_nodes(node)):
        if isinstance(c, ast.Call) and isinstance(c.func, ast.Attribute) and c.func.attr == 'write' and len(c.args) == 1 \
                and not c.keywords and isinstance(c.func.value, ast.Name):
            d = dumps_of(c.args[0])
            if d is not None:
                fobj = c.func.value
                c.func = ast.copy_location(ast.Attribute(value=ast.Name(id='json', ctx=ast.Load()), attr='dump', ctx=ast.Load()), c)
                c.args = [clone(d.args[0]), fobj] + [clone(x) for x in d.args[1:]]
                c.keywords = [clone(k) for k in d.keywords]
                changed[0] = True
    if changed[0]:
        par = getattr(node, '_parent', None)
        ast.fix_missing_locations(node)
        set_parents(node)
        node._parent = par
    return nf


def call_idioms(ctx, nf):
    """Two spellings of a call, brought to the plain one (applied to a normalised copy, in place):

    * `opts = {'a': x, 'b': y}` ... `f(p, **opts)`  ->  `f(p, a=x, b=y)` when opts is bound once to a dict display with literal text keys
      and is only ever used as `**opts` (so nothing can have changed it in between);
    * `put = d.setdefault` ... `put(k, v)`  ->  `d.setdefault(k, v)` when put is bound once to an attribute of a plain name and is only
      ever called.
    """
    node = nf.node
    binds, uses = {}, {}
    for n in own_nodes(node):
        if isinstance(n, ast.Assign) and len(n.targets) == 1 and isinstance(n.targets[0], ast.Name):
            binds.setdefault(n.targets[0].id, []).append(n)
        if isinstance(n, ast.Name) and isinstance(n.ctx, ast.Load):
            uses.setdefault(n.id, []).append(n)
    changed = False
    for name, bs in binds.items():
        if len(bs) != 1:
            continue
        v = bs[0].value
        us = uses.get(name, [])
        if isinstance(v, ast.Dict) and v.keys and all(isinstance(k, ast.Constant) and isinstance(k.value, str) for k in v.keys):
            sites = []
            ok = bool(us)
            for u_ in us:
                par = getattr(u_, '_parent', None)
                if isinstance(par, ast.keyword) and par.arg is None and isinstance(getattr(par, '_parent', None), ast.Call):
                    sites.append((par._parent, par))
                else:
                    ok = False
            if ok:
                for call, kw in sites:
                    i = call.keywords.index(kw)
                    call.keywords[i:i + 1] = [ast.keyword(arg=k.value, value=clone(val)) for k, val in zip(v.keys, v.values)]
                changed = True
        elif isinstance(v, ast.Attribute) and ((isinstance(v.value, ast.Name) and len(binds.get(v.value.id, [])) <= 1) or
                                               (isinstance(v.value, ast.Attribute) and isinstance(v.value.value, ast.Name)
                                                and v.value.value.id == 'self')):
            ok = bool(us) and all(isinstance(getattr(u_, '_parent', None), ast.Call) and u_._parent.func is u_ for u_ in us)
            if ok:
                for u_ in us:
                    u_._parent.func = ast.copy_location(clone(v), u_)
                changed = True
    if changed:
        par = getattr(node, '_parent', None)
        ast.fix_missing_locations(node)
        set_parents(node)
        node._parent = par
    return nf


def propagate_path_aliases(node):
    """`options = self.options` ... `options.setdefault(..)`: a plain local bound exactly once to an attribute path (no call, no
    subscript) names the same object as the path for as long as neither is rebound.  Where the function never assigns to that path
    (nor to a prefix of it) and never rebinds the local, every use of the local is replaced by the path and the binding dropped."""
    if not isinstance(node, (ast.FunctionDef, ast.AsyncFunctionDef)):
        return node
    from .deps import pseudo
    params = {a.arg for a in node.args.posonlyargs + node.args.args + node.args.kwonlyargs}
    if node.args.vararg:
        params.add(node.args.vararg.arg)
    if node.args.kwarg:
        params.add(node.args.kwarg.arg)
    binds, other_stores, path_stores, scoped = {}, set(), set(), set()
    for n in ast.walk(node):
        if isinstance(n, ast.Assign) and len(n.targets) == 1 and isinstance(n.targets[0], ast.Name):
            binds.setdefault(n.targets[0].id, []).append(n)
        elif isinstance(n, ast.Name) and isinstance(n.ctx, (ast.Store, ast.Del)):
            par = getattr(n, '_parent', None)
            if not (isinstance(par, ast.Assign) and len(par.targets) == 1 and par.targets[0] is n):
                other_stores.add(n.id)
        if isinstance(n, (ast.Attribute, ast.Subscript)) and isinstance(n.ctx, (ast.Store, ast.Del)):
            p = pseudo(n) if isinstance(n, ast.Attribute) else None
            if p:
                path_stores.add(p)
        if isinstance(n, (ast.Nonlocal, ast.Global)):
            scoped |= set(n.names)
    # parent links may be missing on a clone: recompute the "single target" test without them
    multi = set()
    for n in ast.walk(node):
        if isinstance(n, (ast.For, ast.AsyncFor, ast.comprehension)):
            multi |= {x.id for x in ast.walk(n.target) if isinstance(x, ast.Name)}
        elif isinstance(n, (ast.With, ast.AsyncWith)):
            for it in n.items:
                if it.optional_vars is not None:
                    multi |= {x.id for x in ast.walk(it.optional_vars) if isinstance(x, ast.Name)}
        elif isinstance(n, ast.AugAssign) and isinstance(n.target, ast.Name):
            multi.add(n.target.id)
        elif isinstance(n, ast.Assign) and not (len(n.targets) == 1 and isinstance(n.targets[0], ast.Name)):
            for t in n.targets:
                multi |= {x.id for x in ast.walk(t) if isinstance(x, ast.Name) and isinstance(x.ctx, ast.Store)}
        elif isinstance(n, ast.NamedExpr) and isinstance(n.target, ast.Name):
            multi.add(n.target.id)
        elif isinstance(n, ast.ExceptHandler) and n.name:
            multi.add(n.name)
        elif isinstance(n, (ast.FunctionDef, ast.AsyncFunctionDef, ast.ClassDef)) and n is not node:
            multi.add(n.name)
    repl = {}
    # `self.matcher = matcher = E`: one object under two names from the start; where the local is never stored again and the path is
    # assigned only here, the local is replaced by the path and the statement becomes `self.matcher = E`
    chains = {}
    for n in ast.walk(node):
        if isinstance(n, ast.Assign) and len(n.targets) == 2:
            names_ = [t for t in n.targets if isinstance(t, ast.Name)]
            paths_ = [t for t in n.targets if isinstance(t, ast.Attribute) and pseudo(t)]
            if len(names_) == 1 and len(paths_) == 1:
                chains[names_[0].id] = (n, paths_[0])
    stores_count = {}
    for n in ast.walk(node):
        if isinstance(n, ast.Name) and isinstance(n.ctx, (ast.Store, ast.Del)):
            stores_count[n.id] = stores_count.get(n.id, 0) + 1
    path_store_count = {}
    for n in ast.walk(node):
        if isinstance(n, ast.Attribute) and isinstance(n.ctx, (ast.Store, ast.Del)) and pseudo(n):
            path_store_count[pseudo(n)] = path_store_count.get(pseudo(n), 0) + 1
    chain_repl = {}
    for nm, (asg, pth) in chains.items():
        p = pseudo(pth)
        if stores_count.get(nm, 0) == 1 and nm not in params and nm not in scoped and path_store_count.get(p, 0) == 1 and \
                not any(q != p and p.startswith(q + '.') for q in path_store_count) and p.split('.')[0] == 'self':
            chain_repl[nm] = (asg, pth)
    if chain_repl:
        class C(ast.NodeTransformer):
            def visit_Assign(self, n):
                self.generic_visit(n)
                for nm, (a, pth) in chain_repl.items():
                    if n is a:
                        n.targets = [t for t in n.targets if not (isinstance(t, ast.Name) and t.id == nm)]
                return n

            def visit_Name(self, n):
                if isinstance(n.ctx, ast.Load) and n.id in chain_repl:
                    pth = chain_repl[n.id][1]
                    new = clone(pth)
                    for x in ast.walk(new):
                        if hasattr(x, 'ctx'):
                            x.ctx = ast.Load()
                    return ast.copy_location(new, n)
                return n
        node = C().visit(node)
        ast.fix_missing_locations(node)
    for name, bs in binds.items():
        if len(bs) != 1 or name in params or name in multi or name in scoped:
            continue
        v = bs[0].value
        p = pseudo(v) if isinstance(v, ast.Attribute) else None
        if not p or '.' not in p:
            continue
        root = p.split('.')[0]
        if root in multi or (root in binds and root not in params and len(binds[root]) > 1) or root in scoped:
            continue
        if root in binds and root != 'self':
            continue        # the root itself is a local that is assigned in this function: keep it simple
        if any(ps == p or p.startswith(ps + '.') for ps in path_stores):
            continue
        repl[name] = (bs[0], v)
    if not repl:
        return node

    class R(ast.NodeTransformer):
        def visit_Assign(self, n):
            for nm, (a, v) in repl.items():
                if n is a:
                    return None
            self.generic_visit(n)
            return n

        def visit_Name(self, n):
            if isinstance(n.ctx, ast.Load) and n.id in repl:
                return ast.copy_location(clone(repl[n.id][1]), n)
            return n
    node = R().visit(node)
    for n in ast.walk(node):        # a block emptied by the removal
        for fld in ('body', 'orelse', 'finalbody'):
            b = getattr(n, fld, None)
            if isinstance(b, list) and not b and fld == 'body' and isinstance(n, (ast.If, ast.For, ast.While, ast.With, ast.Try,
                                                                                ast.FunctionDef, ast.ExceptHandler)):
                b.append(ast.Pass())
    ast.fix_missing_locations(node)
    return node
