"""Syntax-directed path enumeration over statement lists (the engine's CFG substitute).

A *path* is one acyclic way through a statement list: the ordered items executed, the
branch decisions taken (as guard items with polarity) and how it ends.  Loops appear as a
single `loop` item (their one-iteration path set is obtained by calling `body_paths` on the
loop node: "this set, zero or more times"); a path that leaves a function from inside a loop
carries a `loop_exit` item holding the inner path.  `try` is modelled with one coarse
exceptional edge: "some prefix of the body ran (`try_partial`), then handler H".
"""
import ast

from .loader import AnalysisError

PATH_CAP_QUICK = 4096
PATH_CAP_THOROUGH = 200000

FALL, RETURN, RAISE, BREAK, CONTINUE = 'fall', 'return', 'raise', 'break', 'continue'


class Item:
    __slots__ = ('kind', 'node', 'pol', 'inner')

    def __init__(self, kind, node, pol=None, inner=None):
        self.kind = kind    # stmt | assert | guard | loop | loop_exit | try_partial | handler | finally | with | return | raise | opaque_if
        self.node = node
        self.pol = pol      # for guard: True/False
        self.inner = inner  # for loop_exit: the inner Path; for try_partial: the Try node's body

    def __repr__(self):
        if self.kind == 'guard':
            return '%s(%s)' % ('' if self.pol else 'not ', ast.unparse(self.node))
        if self.kind in ('loop', 'loop_exit'):
            n = self.node
            if isinstance(n, ast.For):
                return '%s[for %s in %s]' % (self.kind, ast.unparse(n.target), ast.unparse(n.iter))
            return '%s[while %s]' % (self.kind, ast.unparse(n.test))
        if self.kind == 'handler':
            return 'handler[%s]' % (ast.unparse(self.node.type) if self.node.type else 'bare')
        if self.kind in ('try_partial', 'finally'):
            return self.kind
        try:
            return '%s[%s]' % (self.kind, ast.unparse(self.node).split('\n')[0][:70])
        except Exception:
            return self.kind


class Path:
    __slots__ = ('items', 'term')

    def __init__(self, items=(), term=FALL):
        self.items = list(items)
        self.term = term

    def extend(self, other):
        return Path(self.items + other.items, other.term)

    def guards(self):
        return [(i.node, i.pol) for i in self.items if i.kind == 'guard']

    def describe(self):
        return [repr(i) for i in self.items] + ['=> ' + self.term]

    def __repr__(self):
        return ' ; '.join(self.describe())


def _const_truth(test):
    if isinstance(test, ast.Constant):
        return bool(test.value)
    return None


def _contains(node, pred):
    for n in ast.walk(node):
        if pred(n):
            return True
    return False


_TERMINATORS = (ast.Return, ast.Raise, ast.Break, ast.Continue)


class Enumerator:
    def __init__(self, cap=PATH_CAP_QUICK, relevant=None, where='?'):
        """relevant: optional predicate on AST nodes; an `if` none of whose arms contains a relevant node
        or a terminator is collapsed into one `opaque_if` item (avoids 2^n paths from unrelated defaults)."""
        self.cap = cap
        self.relevant = relevant
        self.where = where

    # -- public
    def paths(self, stmts):
        out = self._block(list(stmts))
        return out

    def body_paths(self, loop):
        return self._block(list(loop.body))

    # -- internals
    def _check(self, n):
        if n > self.cap:
            raise AnalysisError('path cap %d exceeded in %s' % (self.cap, self.where))

    def _block(self, stmts):
        paths = [Path()]
        for st in stmts:
            live = [p for p in paths if p.term == FALL]
            done = [p for p in paths if p.term != FALL]
            if not live:
                break
            sub = self._stmt(st)
            new = []
            for p in live:
                for s in sub:
                    new.append(p.extend(s))
            paths = done + new
            self._check(len(paths))
        return paths

    def _collapsible(self, node):
        if self.relevant is None:
            return False
        for n in ast.walk(node):
            if isinstance(n, _TERMINATORS):
                return False
            if isinstance(n, (ast.Yield, ast.YieldFrom)):
                return False
            if self.relevant(n):
                return False
        return True

    def _stmt(self, st):
        if isinstance(st, ast.If):
            if self._collapsible(st):
                return [Path([Item('opaque_if', st)])]
            t = _const_truth(st.test)
            out = []
            if t is not False:
                for p in self._block(st.body):
                    out.append(Path([Item('guard', st.test, True)] + p.items, p.term))
            if t is not True:
                for p in self._block(st.orelse):
                    out.append(Path([Item('guard', st.test, False)] + p.items, p.term))
            return out
        if isinstance(st, (ast.For, ast.AsyncFor, ast.While)):
            return self._loop(st)
        if isinstance(st, ast.Try) or st.__class__.__name__ == 'TryStar':
            return self._try(st)
        if isinstance(st, (ast.With, ast.AsyncWith)):
            head = [Item('with', it) for it in st.items]
            return [Path(head + p.items, p.term) for p in self._block(st.body)]
        if isinstance(st, ast.Return):
            return [Path([Item('return', st)], RETURN)]
        if isinstance(st, ast.Raise):
            return [Path([Item('raise', st)], RAISE)]
        if isinstance(st, ast.Break):
            return [Path([], BREAK)]
        if isinstance(st, ast.Continue):
            return [Path([], CONTINUE)]
        if isinstance(st, ast.Assert):
            if _const_truth(st.test) is False:
                return [Path([Item('raise', st)], RAISE)]
            return [Path([Item('assert', st)])]
        if st.__class__.__name__ == 'Match':
            raise AnalysisError('match statement not modelled (%s)' % self.where)
        return [Path([Item('stmt', st)])]

    def _loop(self, st):
        body = self._block(list(st.body))
        out = []
        infinite = isinstance(st, ast.While) and _const_truth(st.test) is True
        has_break = any(p.term == BREAK for p in body)
        # leaving the function from inside the loop
        for p in body:
            if p.term in (RETURN, RAISE):
                out.append(Path([Item('loop_exit', st, inner=p)], p.term))
        if not infinite or has_break:
            after = self._block(list(st.orelse)) if st.orelse and not has_break else [Path()]
            if st.orelse and has_break:
                # break skips orelse; normal exhaustion runs it: keep both
                after = self._block(list(st.orelse)) + [Path()]
            for a in after:
                out.append(Path([Item('loop', st)] + a.items, a.term))
        return out

    def _try(self, st):
        body = self._block(list(st.body))
        final = self._block(list(st.finalbody)) if st.finalbody else [Path()]
        orelse = self._block(list(st.orelse)) if st.orelse else [Path()]
        out = []

        def through_final(p):
            res = []
            for f in final:
                items = p.items + ([Item('finally', st)] + f.items if st.finalbody else [])
                term = f.term if f.term != FALL else p.term
                res.append(Path(items, term))
            return res

        for p in body:
            if p.term == FALL:
                for e in orelse:
                    out.extend(through_final(p.extend(e)))
            elif p.term == RAISE and st.handlers:
                # an explicit raise in the body may be caught: covered by the coarse handler edge below;
                # it may also propagate if no handler matches
                out.extend(through_final(p))
            else:
                out.extend(through_final(p))
        catch_all = False
        for h in st.handlers:
            if h.type is None or (isinstance(h.type, ast.Name) and h.type.id in ('Exception', 'BaseException')):
                catch_all = True
            for hp in self._block(list(h.body)):
                p = Path([Item('try_partial', st, inner=st.body), Item('handler', h)] + hp.items, hp.term)
                out.extend(through_final(p))
        if st.finalbody and not catch_all:
            out.extend(through_final(Path([Item('try_partial', st, inner=st.body)], RAISE)))
        self._check(len(out))
        return out


# ---------------------------------------------------------------------- expression order

def eval_order(node):
    """Yield the sub-nodes of `node` (inclusive) roughly in evaluation order (children before parents).

    Lambda bodies and nested function/class bodies are not entered (they do not run here)."""
    if isinstance(node, (ast.Lambda, ast.FunctionDef, ast.AsyncFunctionDef, ast.ClassDef)):
        if isinstance(node, ast.Lambda):
            for d in node.args.defaults + [x for x in node.args.kw_defaults if x is not None]:
                yield from eval_order(d)
        else:
            for d in getattr(node, 'decorator_list', []):
                yield from eval_order(d)
            if not isinstance(node, ast.ClassDef):
                for d in node.args.defaults + [x for x in node.args.kw_defaults if x is not None]:
                    yield from eval_order(d)
        yield node
        return
    if isinstance(node, ast.Assign):
        yield from eval_order(node.value)
        for t in node.targets:
            yield from eval_order(t)
        yield node
        return
    if isinstance(node, ast.AugAssign):
        yield from eval_order(node.value)
        yield from eval_order(node.target)
        yield node
        return
    if isinstance(node, ast.AnnAssign):
        if node.value is not None:
            yield from eval_order(node.value)
        yield from eval_order(node.target)
        yield node
        return
    for c in ast.iter_child_nodes(node):
        yield from eval_order(c)
    yield node


def item_nodes(item):
    """AST nodes evaluated by one path item, in order."""
    k = item.kind
    if k in ('stmt', 'assert', 'return', 'raise'):
        yield from eval_order(item.node)
    elif k == 'guard':
        yield from eval_order(item.node)
    elif k == 'with':
        yield from eval_order(item.node.context_expr)
    elif k == 'loop':
        n = item.node
        if isinstance(n, ast.For):
            yield from eval_order(n.iter)
        else:
            yield from eval_order(n.test)
    elif k == 'opaque_if':
        yield from eval_order(item.node)
    # loop_exit / try_partial / handler / finally carry structure, not expressions


def path_nodes(path, into_loops=False, enum=None):
    """All nodes evaluated along a path, in order; with into_loops the *whole* loop statement is walked too."""
    for it in path.items:
        if it.kind == 'loop' and into_loops:
            yield from eval_order(it.node)
        elif it.kind == 'loop_exit':
            n = it.node
            if isinstance(n, ast.For):
                yield from eval_order(n.iter)
            yield from path_nodes(it.inner, into_loops, enum)
        elif it.kind == 'try_partial':
            if into_loops:
                for st in it.inner:
                    yield from eval_order(st)
        else:
            yield from item_nodes(it)


def calls_in(node):
    for n in eval_order(node):
        if isinstance(n, ast.Call):
            yield n


def yields_in(node):
    for n in eval_order(node):
        if isinstance(n, (ast.Yield, ast.YieldFrom)):
            yield n
