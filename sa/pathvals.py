"""Path-wise reaching-value substitution.

Along ONE enumerated path (sa/paths.py) the assignments are totally ordered, so the value a name holds at a guard, a return
or the end of the path can be written as an expression over the function's parameters by substituting, in order, every
simple assignment `name = expr` / `self.attr = expr` met so far.  This is reaching definitions on an acyclic path - no
values are computed, expressions are only rewritten - and it lets a clause state what a branch establishes (`self.resources`
ends up as `[pkg.resources[sel].name]`) without caring through how many local names the code spells it.

Loops are not entered: a name assigned inside a loop the path passes through is dropped from the environment (unknown).
"""
import ast

from .astcopy import clone
import copy

from .deps import pseudo


class _Subst(ast.NodeTransformer):
    def __init__(self, env):
        self.env = env

    def visit_Name(self, n):
        if isinstance(n.ctx, ast.Load) and n.id in self.env:
            return clone(self.env[n.id])
        return n

    def visit_Attribute(self, n):
        p = pseudo(n)
        if isinstance(n.ctx, ast.Load) and p is not None and p in self.env:
            return clone(self.env[p])
        return self.generic_visit(n)

    def visit_Lambda(self, n):
        return n


def subst(expr, env):
    if expr is None:
        return None
    return _Subst(env).visit(clone(expr))


def _assigned_names(node):
    out = set()
    for n in ast.walk(node):
        if isinstance(n, (ast.Name, ast.Attribute)) and isinstance(getattr(n, 'ctx', None), ast.Store):
            p = pseudo(n)
            if p:
                out.add(p)
    return out


class PathValues:
    """guards: [(resolved test, polarity)], returns: [resolved value], env: final name -> expression, asserts: [resolved test]"""

    def __init__(self, path, env=None):
        self.env = dict(env or {})
        self.guards = []
        self.returns = []
        self.asserts = []
        self.events = []        # ('guard', expr, pol) | ('assign', name, expr) | ('return', expr) in path order
        self.stmts = []         # (original statement, copy with reaching values substituted) for non-simple statements
        for it in path.items:
            k = it.kind
            if k == 'guard':
                g = subst(it.node, self.env)
                self.guards.append((g, it.pol))
                self.events.append(('guard', g, it.pol))
            elif k == 'assert':
                self.asserts.append(subst(it.node.test, self.env))
            elif k == 'return':
                v = subst(it.node.value, self.env) if it.node.value is not None else ast.Constant(value=None)
                self.returns.append(v)
                self.events.append(('return', v))
            elif k == 'stmt':
                st = it.node
                if isinstance(st, ast.Assign) and len(st.targets) == 1 and pseudo(st.targets[0]) is not None:
                    name = pseudo(st.targets[0])
                    v = subst(st.value, self.env)
                    self.env[name] = v
                    self.events.append(('assign', name, v))
                elif isinstance(st, ast.Assign) and len(st.targets) == 1 and isinstance(st.targets[0], (ast.Tuple, ast.List)) and \
                        isinstance(st.value, (ast.Tuple, ast.List)) and len(st.value.elts) == len(st.targets[0].elts) and \
                        all(pseudo(t) is not None for t in st.targets[0].elts):
                    vals = [subst(v, self.env) for v in st.value.elts]       # simultaneous assignment
                    for t, v in zip(st.targets[0].elts, vals):
                        self.env[pseudo(t)] = v
                        self.events.append(('assign', pseudo(t), v))
                elif isinstance(st, ast.Assign) and len(st.targets) == 1 and isinstance(st.targets[0], (ast.Tuple, ast.List)) and \
                        not isinstance(st.value, (ast.Tuple, ast.List)) and all(isinstance(t, ast.Name) for t in st.targets[0].elts) and \
                        isinstance(st.value, (ast.Name, ast.Attribute, ast.Subscript)):
                    # unpacking of a sequence held by a name: `name, = names`  ->  name = names[0]
                    v = subst(st.value, self.env)
                    for i_, t in enumerate(st.targets[0].elts):
                        e_ = ast.Subscript(value=v, slice=ast.Constant(value=i_), ctx=ast.Load())
                        ast.copy_location(e_, st)
                        ast.fix_missing_locations(e_)
                        self.env[t.id] = e_
                        self.events.append(('assign', t.id, e_))
                elif isinstance(st, ast.AnnAssign) and st.value is not None and pseudo(st.target) is not None:
                    self.env[pseudo(st.target)] = subst(st.value, self.env)
                else:
                    # any other statement (store into a subscript / attribute, call, augmented assignment): keep a copy with
                    # the values known at this point substituted into the names it reads
                    try:
                        self.stmts.append((st, _Subst(self.env).visit(clone(st))))
                    except Exception:
                        pass
                    for nm in _assigned_names(st):
                        self.env.pop(nm, None)
            elif k in ('loop', 'loop_exit', 'try_partial', 'with', 'handler', 'opaque_if'):
                if it.node is not None:
                    for nm in _assigned_names(it.node):
                        self.env.pop(nm, None)

    def value(self, name):
        return self.env.get(name)


def returned_values(fnode, where='?'):
    """Resolved return expressions of every enumerated path through a function body."""
    from .paths import Enumerator
    out = []
    for p in Enumerator(where=where).paths(fnode.body):
        out.extend(PathValues(p).returns)
    return out


def flag_resolved_guards(path):
    """Guards of a path with *flag locals* replaced by the test they were assigned from earlier on the path
    (`created = '' not in storage.buckets; ...; if created:` tests the existence).  Only names whose value is a comparison /
    boolean expression are replaced, one level deep, so the other names keep the spelling the clauses key on."""
    flags = {}
    out = []
    for it in path.items:
        if it.kind == 'stmt' and isinstance(it.node, ast.Assign) and len(it.node.targets) == 1 and \
                isinstance(it.node.targets[0], ast.Name):
            nm = it.node.targets[0].id
            if isinstance(it.node.value, (ast.Compare, ast.BoolOp)) or \
                    (isinstance(it.node.value, ast.UnaryOp) and isinstance(it.node.value.op, ast.Not)):
                flags[nm] = it.node.value
            else:
                flags.pop(nm, None)
        elif it.kind == 'guard':
            out.append((subst(it.node, flags) if flags else it.node, it.pol))
        elif it.kind in ('loop', 'loop_exit', 'try_partial', 'with', 'handler', 'opaque_if') and it.node is not None:
            for nm in _assigned_names(it.node):
                flags.pop(nm, None)
    return out
