"""Small AST pattern matcher with metavariables, so rules can state a code shape up to consistent renaming.

Pattern syntax = Python source.  In a pattern
  * a Name  `__X`   (two leading underscores, then anything) matches ANY expression; equal metavariables must match
    structurally equal expressions;
  * a Name  `_x`    (one leading underscore, lower case) matches any *identifier* (Name node) and binds its id consistently;
    it also matches `self.<attr>` pseudo-names;
  * a Name `___`    (three underscores) matches any expression without binding;
  * `...` (Ellipsis) as a statement matches any run of statements; as a call argument matches any remaining arguments.
Everything else must match node type and fields exactly (context fields and positions ignored).
"""
import ast

_CACHE = {}


def _parse(src, mode):
    key = (src, mode)
    if key not in _CACHE:
        t = ast.parse(src.strip(), mode='exec')
        if mode == 'expr':
            assert len(t.body) == 1 and isinstance(t.body[0], ast.Expr), src
            _CACHE[key] = t.body[0].value
        elif mode == 'stmt':
            assert len(t.body) == 1, src
            _CACHE[key] = t.body[0]
        else:
            _CACHE[key] = t.body
    return _CACHE[key]


def _same(a, b):
    return ast.dump(a) == ast.dump(b)


def _pseudo(n):
    if isinstance(n, ast.Name):
        return n.id
    if isinstance(n, ast.Attribute) and isinstance(n.value, ast.Name) and n.value.id == 'self':
        return 'self.' + n.attr
    return None


def _m(p, n, env):
    if isinstance(p, ast.Name):
        if p.id == '___':
            return isinstance(n, ast.AST)
        if p.id.startswith('__') and len(p.id) > 2:
            if not isinstance(n, ast.expr):
                return False
            if p.id in env:
                return _same(env[p.id], n)
            env[p.id] = n
            return True
        if p.id.startswith('_') and len(p.id) > 1 and p.id[1].islower():
            nm = _pseudo(n)
            if nm is None:
                return False
            if p.id in env:
                return env[p.id] == nm
            env[p.id] = nm
            return True
    if type(p) is not type(n):
        return False
    for f in p._fields:
        if f in ('ctx', 'type_comment', 'kind'):
            continue
        pv, nv = getattr(p, f, None), getattr(n, f, None)
        if isinstance(pv, list):
            if not isinstance(nv, list) or not _mlist(pv, nv, env):
                return False
        elif isinstance(pv, ast.AST):
            if not isinstance(nv, ast.AST) or not _m(pv, nv, env):
                return False
        else:
            if isinstance(pv, str) and f in ('arg', 'name', 'attr', 'id') and pv.startswith('_') and len(pv) > 1 \
                    and pv[1].islower() and isinstance(nv, str):
                if pv in env:
                    if env[pv] != nv:
                        return False
                else:
                    env[pv] = nv
            elif pv != nv:
                return False
    return True


def _is_ellipsis(x):
    return (isinstance(x, ast.Expr) and isinstance(x.value, ast.Constant) and x.value.value is Ellipsis) or \
        (isinstance(x, ast.Constant) and x.value is Ellipsis)


def _mlist(ps, ns, env):
    if not ps:
        return not ns
    if _is_ellipsis(ps[0]):
        for k in range(len(ns) + 1):
            e2 = dict(env)
            if _mlist(ps[1:], ns[k:], e2):
                env.clear()
                env.update(e2)
                return True
        return False
    if not ns:
        return False
    if ps[0] is None or ns[0] is None:
        return ps[0] is None and ns[0] is None and _mlist(ps[1:], ns[1:], env)
    e2 = dict(env)
    if _m(ps[0], ns[0], e2) and _mlist(ps[1:], ns[1:], e2):
        env.clear()
        env.update(e2)
        return True
    return False


def match_expr(pattern, node, env=None):
    """-> bindings dict or None"""
    env = dict(env or {})
    return env if _m(_parse(pattern, 'expr'), node, env) else None


def match_stmt(pattern, node, env=None):
    env = dict(env or {})
    return env if _m(_parse(pattern, 'stmt'), node, env) else None


def match_block(pattern, stmts, env=None):
    env = dict(env or {})
    return env if _mlist(_parse(pattern, 'block'), list(stmts), env) else None


def find_expr(pattern, tree, env=None):
    out = []
    for n in ast.walk(tree):
        if isinstance(n, ast.expr):
            b = match_expr(pattern, n, env)
            if b is not None:
                out.append((n, b))
    return out


def find_stmt(pattern, tree, env=None):
    out = []
    for n in ast.walk(tree):
        if isinstance(n, ast.stmt):
            b = match_stmt(pattern, n, env)
            if b is not None:
                out.append((n, b))
    return out


def has_expr(pattern, tree, env=None):
    return bool(find_expr(pattern, tree, env))


def has_stmt(pattern, tree, env=None):
    return bool(find_stmt(pattern, tree, env))
