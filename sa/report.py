"""Findings, obligations, known-findings matching, evidence files, exit codes."""
import ast
import json
import os
import re
import sys
import time

VERIF = os.path.dirname(os.path.dirname(os.path.abspath(__file__)))
EVIDENCE_DIR = os.environ.get('VERIF_EVIDENCE_DIR', os.path.join(VERIF, 'evidence'))
KNOWN_FILE = os.path.join(VERIF, 'known_findings.json')


def norm(text):
    """Normalised construct text: whitespace-insensitive, quote-insensitive."""
    if not isinstance(text, str):
        try:
            text = ast.unparse(text)
        except Exception:
            text = str(text)
    text = re.sub(r'\s+', ' ', text.strip())
    return text


class Finding:
    def __init__(self, prop, rule, where, function, construct, message, path=None):
        self.prop = prop
        self.rule = rule
        self.where = where          # file:line (diagnostic only, never used as a key)
        self.function = function    # qualified name
        self.construct = norm(construct)
        self.message = message
        self.path = path            # optional list of strings (guards / items)

    def key(self):
        return (self.prop, self.rule, self.function, self.construct)

    def as_dict(self):
        d = dict(property=self.prop, rule=self.rule, where=self.where, function=self.function,
                 construct=self.construct, message=self.message)
        if self.path:
            d['path'] = self.path
        return d


class Run:
    """Collects obligations and findings of one check run and writes the evidence file."""

    def __init__(self, prop, tier='quick', seed=0):
        self.prop = prop
        self.tier = tier
        self.seed = seed
        self.t0 = time.time()
        self.findings = []
        self.obligations = 0
        self.discharged = 0
        self.samples = []
        self.instances = {}      # rule -> count of instances evaluated
        self.distinct = set()    # (rule, construct) pairs that had something to check
        self.notes = []
        self.trusted = []
        self.analysed = {}
        self.rules = {}          # rule id -> description
        self.not_decided = []
        self.audit = None
        self._sample_cap = 60

    # -- recording
    def rule(self, rid, text):
        self.rules[rid] = text

    def ok(self, rule, where, construct, detail=None):
        """An obligation that was checked and discharged."""
        self.obligations += 1
        self.discharged += 1
        self.instances[rule] = self.instances.get(rule, 0) + 1
        c = norm(construct)
        self.distinct.add((rule, c))
        if len(self.samples) < self._sample_cap or not any(s['rule'] == rule for s in self.samples):
            s = dict(rule=rule, where=where, construct=c[:200], verdict='ok')
            if detail is not None:
                s['detail'] = detail
            self.samples.append(s)

    def fail(self, rule, where, function, construct, message, path=None):
        self.obligations += 1
        self.instances[rule] = self.instances.get(rule, 0) + 1
        c = norm(construct)
        self.distinct.add((rule, c))
        f = Finding(self.prop, rule, where, function, construct, message, path)
        self.findings.append(f)
        self.samples.append(dict(rule=rule, where=where, construct=c[:200], verdict='VIOLATED', message=message))
        return f

    def check(self, cond, rule, where, function, construct, message, detail=None, path=None):
        if cond:
            self.ok(rule, where, construct, detail)
        else:
            self.fail(rule, where, function, construct, message, path)
        return cond

    def floor(self, rule, n, minimum, what):
        """A rule that matches fewer instances than confirmed by hand is an analysis error."""
        from .loader import AnalysisError
        if n < minimum and any(f.rule == rule for f in self.findings):
            return      # the rule already reports violations among the instances it did find: they take precedence
        if n < minimum:
            raise AnalysisError('rule %s found %d %s, fewer than the %d confirmed by reading: the anchors moved; '
                                'refusing to pass vacuously' % (rule, n, what, minimum))

    def note(self, text):
        self.notes.append(text)

    # -- finishing
    def finish(self, explanation, assumptions=None):
        known = load_known()
        unlisted = []
        listed = []
        for f in self.findings:
            k = match_known(known, f)
            if k is not None:
                listed.append((f, k))
            else:
                unlisted.append(f)
        vio_dir = os.path.join(EVIDENCE_DIR, 'violations')
        lines = []
        for f, k in listed:
            lines.append('KNOWN-FINDING: property=%s rule=%s %s :: %s [%s]' %
                         (f.prop, f.rule, f.function, k.get('what', f.message), f.where))
        for i, f in enumerate(unlisted):
            os.makedirs(vio_dir, exist_ok=True)
            p = os.path.join(vio_dir, '%s-%d.json' % (self.prop, i))
            with open(p, 'w') as fh:
                json.dump(f.as_dict(), fh, indent=1)
            lines.append('  %s %s in %s: %s' % (f.rule, f.where, f.function, f.message))
            lines.append('    construct: %s' % f.construct[:300])
            if f.path:
                lines.append('    path: %s' % ' ; '.join(f.path)[:600])
            lines.append('VIOLATION property=%s replay=%s' % (self.prop, p))
        wall = time.time() - self.t0
        cov = dict(
            explanation=explanation,
            obligations=self.obligations,
            discharged=self.discharged + len(listed),
            evaluations=sum(self.instances.values()),
            distinct_nontrivial=len(self.distinct),
            rule='one evaluation = one rule instance (a call site, path, handler, table entry or def-use chain found '
                 'by role in the current working tree of /repo); distinct_nontrivial counts distinct (rule, normalised '
                 'construct) pairs that had at least one path / dependence / table entry to examine',
            samples=self.samples[:self._sample_cap + 20],
            rules=self.rules,
            rule_instances=self.instances,
            analysed=self.analysed,
            trusted_base=self.trusted,
            not_decided=self.not_decided,
            known_findings_reproduced=[dict(f.as_dict(), what=k.get('what')) for f, k in listed],
            violations=[f.as_dict() for f in unlisted],
            notes=self.notes,
            checker_cmd='./check %s --tier %s' % (self.prop, self.tier),
            exhaustive=True,
        )
        if self.audit is not None:
            cov['sensitivity_audit'] = self.audit
        ev = dict(property_id=self.prop, tier=self.tier, seed=self.seed, level='other', coverage=cov,
                  assumptions=assumptions or [], wall_s=round(wall, 3), violations=len(unlisted))
        os.makedirs(EVIDENCE_DIR, exist_ok=True)
        with open(os.path.join(EVIDENCE_DIR, '%s.json' % self.prop), 'w') as fh:
            json.dump(ev, fh, indent=1, default=str)
        print('%s [%s]: %d obligations, %d discharged, %d known finding(s), %d violation(s); %d rule instances, %.2fs' %
              (self.prop, self.tier, self.obligations, self.discharged, len(listed), len(unlisted),
               sum(self.instances.values()), wall))
        for ln in lines:
            print(ln)
        sys.stdout.flush()
        return 1 if unlisted else 0


def load_known():
    if not os.path.exists(KNOWN_FILE):
        return []
    with open(KNOWN_FILE) as fh:
        data = json.load(fh)
    return [e for e in data.get('findings', []) if e.get('status') == 'known']


def match_known(known, f):
    for e in known:
        if e['property'] != f.prop or e['rule'] != f.rule:
            continue
        # an entry names a function, or the public top-level definition that encloses a privately named nested function
        # (`module:factory` matches findings in `module:factory.func`, `module:factory.func.helper`, ...)
        # ... or, for a private module-level helper, the one public top-level definition it works for (cli.attach_owners)
        names = [f.function] + list(getattr(f, 'owners', ()))
        if not any(e['function'] == nm or nm.startswith(e['function'] + '.') or nm.startswith(e['function'] + ':') for nm in names):
            continue
        if norm(e['construct']) != f.construct:
            continue
        return e
    return None
