"""Name / import / class / call resolution over the Repo model (own resolver: no type checker is installed)."""
import ast
import builtins

from .loader import (AnalysisError, ClassInfo, FuncInfo, PKG, Repo, own_nodes, parent_chain,
                     _target_names)

BUILTINS = set(dir(builtins))


class Resolver:
    def __init__(self, repo: Repo):
        self.repo = repo
        self._locals_cache = {}
        for m in repo.modules.values():
            self._collect_imports(m)
        # second pass: `from pkg import name` where pkg/__init__ itself imports `name` (re-export shadowing a submodule of the same
        # name) could not be decided before pkg's own imports were collected
        for m in repo.modules.values():
            m.imports.clear()
            m.star_imports[:] = []
            self._collect_imports(m)
        for c in repo.classes.values():
            self._resolve_bases(c)
        for c in repo.classes.values():
            c.mro = self._mro(c)
        self.unresolved = []   # (where, text)
        self.n_calls = 0
        self.n_resolved = 0

    # ------------------------------------------------------------------ imports
    def _abs_module(self, m, level, name):
        if level == 0:
            return name
        parts = m.name.split('.')
        if not m.is_pkg:
            parts = parts[:-1]
        if level > 1:
            parts = parts[:-(level - 1)]
        base = '.'.join(parts)
        if name:
            return base + '.' + name if base else name
        return base

    def _collect_imports(self, m):
        for node in ast.walk(m.tree):
            if isinstance(node, ast.Import):
                for a in node.names:
                    local = a.asname or a.name.split('.')[0]
                    target = a.name if a.asname else a.name.split('.')[0]
                    if target in self.repo.modules:
                        m.imports[local] = ('module', target)
                    else:
                        m.imports[local] = ('external', target)
            elif isinstance(node, ast.ImportFrom):
                mod = self._abs_module(m, node.level, node.module or '')
                for a in node.names:
                    if a.name == '*':
                        m.star_imports.append(mod)
                        continue
                    local = a.asname or a.name
                    sub = mod + '.' + a.name
                    if mod in self.repo.modules:
                        if sub in self.repo.modules and not self._module_defines(mod, a.name):
                            m.imports[local] = ('module', sub)
                        else:
                            m.imports[local] = ('symbol', mod, a.name)
                    elif mod.split('.')[0] == PKG:
                        # inside the package but not found: analysis error only if ever used
                        m.imports[local] = ('missing', mod, a.name)
                    else:
                        m.imports[local] = ('external', mod + '.' + a.name)

    def _module_defines(self, modname, name):
        m = self.repo.modules[modname]
        return name in m.defs or name in m.imports

    def lookup_symbol(self, modname, name, _seen=None):
        """Resolve `name` as seen at top level of module `modname`, through re-exports.

        Returns FuncInfo | ClassInfo | ('module', name) | ('external', dotted) | ('value', module, [value nodes]) | None"""
        _seen = _seen or set()
        if (modname, name) in _seen:
            return None
        _seen.add((modname, name))
        m = self.repo.modules.get(modname)
        if m is None:
            return ('external', modname + '.' + name)
        if name in m.defs:
            d = m.defs[name][-1]
            if isinstance(d, (ast.FunctionDef, ast.AsyncFunctionDef)):
                return self.repo.func_of_node[id(d)]
            if isinstance(d, ast.ClassDef):
                return self.repo.class_of_node[id(d)]
            vals = [x[1] for x in m.defs[name] if isinstance(x, tuple)]
            # alias of another top-level symbol (add_metadata = update_package)
            if len(vals) == 1 and isinstance(vals[0], ast.Name) and vals[0].id != name:
                r = self.lookup_symbol(modname, vals[0].id, _seen)
                if r is not None:
                    return r
            return ('value', m, vals)
        if name in m.imports:
            imp = m.imports[name]
            if imp[0] == 'module':
                return ('module', imp[1])
            if imp[0] == 'symbol':
                return self.lookup_symbol(imp[1], imp[2], _seen)
            if imp[0] == 'external':
                return ('external', imp[1])
            if imp[0] == 'missing':
                raise AnalysisError('import of %s from %s in %s does not resolve' % (imp[2], imp[1], m.relpath))
        for sm in m.star_imports:
            if sm in self.repo.modules:
                r = self.lookup_symbol(sm, name, _seen)
                if r is not None and not name.startswith('_'):
                    return r
        return None

    # ------------------------------------------------------------------ classes
    def _resolve_bases(self, c: ClassInfo):
        c.bases = []
        for b in c.node.bases:
            r = self.resolve_expr_static(b, c.module, None)
            if isinstance(r, ClassInfo):
                c.bases.append(r)
            elif isinstance(r, tuple) and r[0] == 'external':
                c.bases.append(r)
            else:
                c.bases.append(('external', ast.unparse(b)))

    def _mro(self, c, _depth=0):
        if _depth > 20:
            raise AnalysisError('class hierarchy too deep / cyclic at %s' % c.qualname)
        seqs = []
        for b in c.bases:
            if isinstance(b, ClassInfo):
                seqs.append(self._mro(b, _depth + 1))
        seqs.append([b for b in c.bases if isinstance(b, ClassInfo)])
        out = [c]
        seqs = [list(s) for s in seqs if s]
        while seqs:
            for s in seqs:
                cand = s[0]
                if not any(cand in t[1:] for t in seqs):
                    break
            else:
                raise AnalysisError('inconsistent MRO for %s' % c.qualname)
            out.append(cand)
            seqs = [[x for x in s if x is not cand] for s in seqs]
            seqs = [s for s in seqs if s]
        return out

    def subclasses(self, c, strict=False):
        out = []
        for k in self.repo.classes.values():
            if c in k.mro and (not strict or k is not c):
                out.append(k)
        return out

    def is_subclass(self, c, name):
        """Is repo class c a (possibly indirect) subclass of a repo class called `name`?"""
        return any(k.name == name for k in c.mro)

    def external_bases(self, c):
        out = []
        for k in c.mro:
            for b in k.bases:
                if not isinstance(b, ClassInfo):
                    out.append(b[1])
        return out

    def lookup_method(self, c, name, after=None):
        """First definition of method `name` in c's MRO (after class `after` if given)."""
        mro = c.mro
        if after is not None:
            if after not in mro:
                return None
            mro = mro[mro.index(after) + 1:]
        for k in mro:
            if name in k.methods:
                return k.methods[name]
        return None

    def lookup_class_attr(self, c, name):
        for k in c.mro:
            if name in k.attrs:
                return k, k.attrs[name]
        return None, None

    # ------------------------------------------------------------------ scopes
    def local_bindings(self, fi: FuncInfo):
        """name -> list of binding records for names bound in this function's own body.

        record = (kind, node) with kind in param / assign / for / with / def / class / import / except / aug / walrus / comp"""
        key = id(fi.node)
        if key in self._locals_cache:
            return self._locals_cache[key]
        b = {}

        def add(name, kind, node):
            b.setdefault(name, []).append((kind, node))
        a = fi.node.args
        for x in a.posonlyargs + a.args + a.kwonlyargs:
            add(x.arg, 'param', x)
        if a.vararg:
            add(a.vararg.arg, 'param', a.vararg)
        if a.kwarg:
            add(a.kwarg.arg, 'param', a.kwarg)
        nonlocal_names = set()
        for n in own_nodes(fi.node):
            if isinstance(n, (ast.Nonlocal, ast.Global)):
                nonlocal_names.update(n.names)
        for n in own_nodes(fi.node):
            if isinstance(n, ast.Assign):
                for t in n.targets:
                    for nm in _target_names(t):
                        add(nm, 'assign', n)
            elif isinstance(n, ast.AnnAssign):
                if isinstance(n.target, ast.Name):
                    add(n.target.id, 'assign' if n.value is not None else 'annot', n)
            elif isinstance(n, ast.AugAssign):
                if isinstance(n.target, ast.Name):
                    add(n.target.id, 'aug', n)
            elif isinstance(n, (ast.For, ast.AsyncFor)):
                for nm in _target_names(n.target):
                    add(nm, 'for', n)
            elif isinstance(n, (ast.With, ast.AsyncWith)):
                for it in n.items:
                    if it.optional_vars is not None:
                        for nm in _target_names(it.optional_vars):
                            add(nm, 'with', n)
            elif isinstance(n, (ast.FunctionDef, ast.AsyncFunctionDef)):
                add(n.name, 'def', n)
            elif isinstance(n, ast.ClassDef):
                add(n.name, 'class', n)
            elif isinstance(n, (ast.Import, ast.ImportFrom)):
                for al in n.names:
                    add(al.asname or al.name.split('.')[0], 'import', n)
            elif isinstance(n, ast.ExceptHandler):
                if n.name:
                    add(n.name, 'except', n)
            elif isinstance(n, ast.NamedExpr):
                add(n.target.id, 'walrus', n)
        for nm in nonlocal_names:
            b.pop(nm, None)
        self._locals_cache[key] = b
        return b

    def comp_bound(self, node, name):
        """Is `name` at `node` bound by an enclosing comprehension / generator expression (inside the same function)?"""
        for p in parent_chain(node):
            if isinstance(p, (ast.ListComp, ast.SetComp, ast.DictComp, ast.GeneratorExp)):
                for g in p.generators:
                    if name in set(_target_names(g.target)):
                        return g
            if isinstance(p, (ast.FunctionDef, ast.AsyncFunctionDef, ast.Lambda, ast.ClassDef)):
                return None
        return None

    def scope_of(self, name_node):
        """Resolve a Name occurrence -> ('comp', comprehension) | ('local', FuncInfo, bindings) |
        ('class', ClassInfo, value) | ('module', Module) | ('builtin',) | ('unknown',)"""
        name = name_node.id
        g = self.comp_bound(name_node, name)
        if g is not None:
            return ('comp', g)
        fi = self.repo.enclosing_func(name_node)
        first = True
        while fi is not None:
            b = self.local_bindings(fi)
            if name in b:
                return ('local', fi, b[name])
            # walk outwards: functions nested in functions; skip class scopes (Python rule)
            p = fi.parent
            while isinstance(p, ClassInfo):
                p = p.parent
            fi = p
            first = False
        m = self.repo.module_of(name_node)
        if m is not None:
            if name in m.defs or name in m.imports:
                return ('module', m)
            for sm in m.star_imports:
                if self.lookup_symbol(sm, name) is not None:
                    return ('module', m)
        if name in BUILTINS:
            return ('builtin',)
        return ('unknown',)

    # ------------------------------------------------------------------ functools.partial
    def partial_of(self, func_expr, module, func):
        """If `func_expr` is a local name bound once to functools.partial(f, ...): that partial(...) Call node, else None."""
        if not isinstance(func_expr, ast.Name) or getattr(func_expr, '_parent', None) is None:
            return None
        sc = self.scope_of(func_expr)
        if sc[0] != 'local':
            return None
        binds = sc[2]
        if len(binds) != 1 or binds[0][0] != 'assign' or not isinstance(binds[0][1], (ast.Assign, ast.AnnAssign)):
            return None
        v = binds[0][1].value
        if isinstance(v, ast.Call) and v.args and isinstance(v.func, (ast.Name, ast.Attribute)):
            pf = self.resolve_expr_static(v.func, module, func)
            if isinstance(pf, tuple) and pf[0] == 'external' and pf[1] == 'functools.partial':
                return v
        return None

    def effective_call(self, call, module, func):
        """The call with the arguments a functools.partial pre-bound merged in (a new Call node), or the call itself."""
        pc = self.partial_of(call.func, module, func)
        if pc is None:
            return call
        new = ast.Call(func=pc.args[0], args=list(pc.args[1:]) + list(call.args), keywords=list(pc.keywords) + list(call.keywords))
        return ast.copy_location(new, call)

    # ------------------------------------------------------------------ static expression resolution
    def resolve_expr_static(self, expr, module, func):
        """Resolve an expression that denotes a function / class / module statically.

        Returns FuncInfo | ClassInfo | ('module', name) | ('external', dotted) | ('value', ...) | None"""
        if isinstance(expr, ast.Name):
            if getattr(expr, '_parent', None) is not None or func is not None:
                sc = self.scope_of(expr) if getattr(expr, '_parent', None) is not None else ('module', module)
            else:
                sc = ('module', module)
            if sc[0] == 'local':
                fi, binds = sc[1], sc[2]
                kinds = set(k for k, _ in binds)
                if kinds == {'def'} and len(binds) == 1:
                    return self.repo.func_of_node[id(binds[0][1])]
                if kinds == {'class'} and len(binds) == 1:
                    return self.repo.class_of_node[id(binds[0][1])]
                if kinds == {'import'}:
                    return self._resolve_local_import(binds[-1][1], expr.id, fi.module)
                if kinds == {'assign'} and len(binds) == 1:
                    v = binds[0][1].value if isinstance(binds[0][1], (ast.Assign, ast.AnnAssign)) else None
                    if isinstance(v, ast.Lambda):
                        return self.repo.func_of_node[id(v)]
                    # name = functools.partial(f, ...): calling the name calls f (with some parameters pre-bound)
                    if isinstance(v, ast.Call) and v.args and isinstance(v.func, (ast.Name, ast.Attribute)):
                        pf = self.resolve_expr_static(v.func, module, func)
                        if isinstance(pf, tuple) and pf[0] == 'external' and pf[1] == 'functools.partial':
                            tgt = self.resolve_expr_static(v.args[0], module, func)
                            if isinstance(tgt, FuncInfo):
                                return tgt
                return ('localvar', fi, binds)
            if sc[0] == 'module':
                r = self.lookup_symbol(sc[1].name, expr.id)
                return r
            if sc[0] == 'builtin':
                return ('external', 'builtins.' + expr.id)
            return None
        if isinstance(expr, ast.Attribute):
            base = self.resolve_expr_static(expr.value, module, func)
            if isinstance(base, tuple) and base[0] == 'module':
                return self.lookup_symbol(base[1], expr.attr)
            if isinstance(base, tuple) and base[0] == 'external':
                return ('external', base[1] + '.' + expr.attr)
            if isinstance(base, ClassInfo):
                m = self.lookup_method(base, self._mangle(base, expr.attr, expr))
                if m is not None:
                    return m
                k, v = self.lookup_class_attr(base, expr.attr)
                if v is not None:
                    return ('value', k.module, [v])
            return None
        return None

    def _resolve_local_import(self, node, local, module):
        if isinstance(node, ast.Import):
            for a in node.names:
                if (a.asname or a.name.split('.')[0]) == local:
                    t = a.name if a.asname else a.name.split('.')[0]
                    return ('module', t) if t in self.repo.modules else ('external', t)
        else:
            mod = self._abs_module(module, node.level, node.module or '')
            for a in node.names:
                if (a.asname or a.name) == local:
                    sub = mod + '.' + a.name
                    if mod in self.repo.modules:
                        if sub in self.repo.modules and not self._module_defines(mod, a.name):
                            return ('module', sub)
                        return self.lookup_symbol(mod, a.name)
                    return ('external', sub)
        return None

    def _mangle(self, cls, attr, node=None):
        if attr.startswith('__') and not attr.endswith('__'):
            c = self.repo.enclosing_class(node) if node is not None else cls
            if c is not None:
                return '_%s%s' % (c.name.lstrip('_'), attr)
        return attr

    # ------------------------------------------------------------------ calls
    def resolve_call(self, call: ast.Call):
        """-> list of targets: FuncInfo | ClassInfo | ('external', dotted) | ('indirect', text)"""
        self.n_calls += 1
        f = call.func
        module = self.repo.module_of(call)
        fi = self.repo.enclosing_func(call)
        out = self._resolve_callee(f, module, fi)
        if out and not all(isinstance(t, tuple) and t[0] == 'indirect' for t in out):
            self.n_resolved += 1
        else:
            self.unresolved.append(('%s:%d' % (module.relpath if module else '?', call.lineno), ast.unparse(f)))
        return out

    def _resolve_callee(self, f, module, fi):
        if isinstance(f, ast.Name):
            r = self.resolve_expr_static(f, module, fi)
            if isinstance(r, (FuncInfo, ClassInfo)):
                return [r]
            if isinstance(r, tuple) and r[0] == 'external':
                return [r]
            if isinstance(r, tuple) and r[0] == 'value':
                vals = r[2]
                outs = []
                for v in vals:
                    if isinstance(v, ast.Lambda):
                        outs.append(self.repo.func_of_node[id(v)])
                    elif isinstance(v, ast.Call):
                        # e.g. Aggregator = collections.namedtuple(...)
                        outs.append(('indirect', 'value of ' + ast.unparse(v)[:60]))
                    else:
                        outs.append(('indirect', ast.unparse(v)[:60]))
                return outs
            return [('indirect', ast.unparse(f))]
        if isinstance(f, ast.Attribute):
            v = f.value
            # super().m / super(C, self).m
            if isinstance(v, ast.Call) and isinstance(v.func, ast.Name) and v.func.id == 'super':
                cls = self.repo.enclosing_class(f)
                if cls is not None:
                    start = cls
                    if v.args:
                        r = self.resolve_expr_static(v.args[0], module, fi)
                        if isinstance(r, ClassInfo):
                            start = r
                    m = self.lookup_method(cls, f.attr, after=start)
                    if m is not None:
                        return [m]
                    ext = self.external_bases(cls)
                    return [('external', '%s.%s' % (ext[0] if ext else 'object', f.attr))]
            # self.m / cls.m
            if isinstance(v, ast.Name) and v.id in ('self', 'cls'):
                cls = self.repo.enclosing_class(f)
                if cls is not None:
                    if f.attr.startswith('__') and not f.attr.endswith('__') and f.attr in cls.methods:
                        return [cls.methods[f.attr]]     # a private (name-mangled) method: the one of this very class, no overriding
                    name = self._mangle(cls, f.attr, f)
                    outs = []
                    m = self.lookup_method(cls, name)
                    if m is not None:
                        outs.append(m)
                    for sub in self.subclasses(cls, strict=True):
                        if name in sub.methods and sub.methods[name] not in outs:
                            outs.append(sub.methods[name])
                    if outs:
                        return outs
                    ext = self.external_bases(cls)
                    if ext:
                        return [('indirect', 'self.%s (attribute or external base %s)' % (f.attr, ext[0]))]
                    return [('indirect', 'self.' + f.attr)]
            r = self.resolve_expr_static(f, module, fi)
            if isinstance(r, (FuncInfo, ClassInfo)):
                return [r]
            if isinstance(r, tuple) and r[0] == 'external':
                return [r]
            return [('indirect', ast.unparse(f))]
        if isinstance(f, ast.Lambda):
            return [self.repo.func_of_node[id(f)]]
        if isinstance(f, ast.Call):
            # e.g. row_processor(link)(ds, position=position): calling an instance of a repo class
            inner = self._resolve_callee(f.func, module, fi)
            outs = []
            for t in inner:
                if isinstance(t, ClassInfo):
                    m = self.lookup_method(t, '__call__')
                    if m is not None:
                        outs.append(m)
            if outs:
                return outs
        return [('indirect', ast.unparse(f))]

    def callee_names(self, call):
        """Short printable names of resolved targets."""
        out = []
        for t in self.resolve_call(call):
            if isinstance(t, (FuncInfo, ClassInfo)):
                out.append(t.qualname)
            else:
                out.append(t[1])
        return out

    def is_external_call(self, call, *dotted):
        """Does the call resolve to one of the given external dotted names (e.g. 'os.rename')?"""
        for t in self._resolve_callee(call.func, self.repo.module_of(call), self.repo.enclosing_func(call)):
            if isinstance(t, tuple) and t[0] == 'external' and t[1] in dotted:
                return True
        return False

    def external_name(self, call):
        for t in self._resolve_callee(call.func, self.repo.module_of(call), self.repo.enclosing_func(call)):
            if isinstance(t, tuple) and t[0] == 'external':
                return t[1]
        return None

    def instantiates(self, call, class_name):
        """Does this call construct a repo class (or a subclass-less alias) named class_name?"""
        for t in self._resolve_callee(call.func, self.repo.module_of(call), self.repo.enclosing_func(call)):
            if isinstance(t, ClassInfo) and t.name == class_name:
                return True
        return False
