#!/usr/bin/env python3
"""Maintainer tool (never run by a check): systematic single-edit sweep over /repo/dataflows to find code the twenty checks
are blind to.  For every simple statement / branch test of every function it builds one mutant (statement -> pass, test negated,
break <-> continue, yield dropped ...), applies it to a scratch copy under $TMPDIR, runs all twenty quick checks on the copy and
records which of them fire.  Mutants on which nothing fires are listed per function for triage (many are behaviour-preserving or
irrelevant to every property; the list only says where to look).

usage: tools/blindspots.py [--jobs 16] [--files glob-substring ...] [--out blindspots.jsonl] [--limit N]
"""
import argparse
import ast
import concurrent.futures
import json
import os
import shutil
import subprocess
import sys
import tempfile

VERIF = os.path.dirname(os.path.dirname(os.path.abspath(__file__)))
sys.path.insert(0, VERIF)
REPO = os.environ.get('VERIF_REPO', '/repo')
PY = '/venv/bin/python' if os.path.exists('/venv/bin/python') else sys.executable
SKIP = ('templates/', 'cli.py', 'VERSION')
PROPS = ['C%02d' % i for i in range(1, 21)]


from sa.mutants import mutants_of  # noqa: E402,F401


def run_mutant(m):
    tmp = tempfile.mkdtemp(prefix='verif-blind-')
    try:
        shutil.copytree(os.path.join(REPO, 'dataflows'), os.path.join(tmp, 'dataflows'), ignore=shutil.ignore_patterns('__pycache__'))
        p = os.path.join(tmp, m['file'])
        with open(p) as fh:
            s = fh.read()
        s2 = s[:m['start']] + m['repl'] + s[m['end']:]
        try:
            compile(s2, p, 'exec')
        except SyntaxError as e:
            return dict(m, status='nocompile')
        with open(p, 'w') as fh:
            fh.write(s2)
        env = dict(os.environ, VERIF_REPO=tmp, VERIF_EVIDENCE_DIR=os.path.join(tmp, 'ev'), VERIF_NO_AUDIT='1')
        fired, errs = [], []
        for prop in PROPS:
            r = subprocess.run([PY, '-B', '-m', 'sa.cli', prop], cwd=VERIF, env=env, capture_output=True, text=True)
            if r.returncode == 1:
                fired.append(prop)
            elif r.returncode != 0:
                errs.append(prop)
        return dict(m, status='done', fired=fired, errors=errs)
    finally:
        shutil.rmtree(tmp, ignore_errors=True)


def main():
    ap = argparse.ArgumentParser()
    ap.add_argument('--jobs', type=int, default=16)
    ap.add_argument('--files', nargs='*')
    ap.add_argument('--out', default='blindspots.jsonl')
    ap.add_argument('--limit', type=int)
    a = ap.parse_args()
    ms = []
    for d, _, fs in os.walk(os.path.join(REPO, 'dataflows')):
        for f in sorted(fs):
            if not f.endswith('.py'):
                continue
            rel = os.path.relpath(os.path.join(d, f), REPO)
            if any(x in rel for x in SKIP):
                continue
            if a.files and not any(x in rel for x in a.files):
                continue
            with open(os.path.join(d, f)) as fh:
                src = fh.read()
            ms.extend(mutants_of(rel, src))
    if a.limit:
        ms = ms[:a.limit]
    print('mutants: %d' % len(ms), flush=True)
    done = 0
    with open(a.out, 'w') as out, concurrent.futures.ThreadPoolExecutor(max_workers=a.jobs) as ex:
        for r in ex.map(run_mutant, ms):
            r.pop('start', None); r.pop('end', None)
            out.write(json.dumps(r) + '\n')
            out.flush()
            done += 1
            if done % 50 == 0:
                print('done %d' % done, flush=True)
    print('finished', flush=True)


if __name__ == '__main__':
    main()
