#!/usr/bin/env python3
"""Maintainer tool (never run by a check): systematic single-edit sweep over /repo/dataflows to find code the twenty checks
are blind to.  For every simple statement / branch test of every function it builds one mutant (statement -> pass, test negated,
break <-> continue, yield dropped ...), applies it to a scratch copy under $TMPDIR, runs all twenty quick checks on the copy and
records which of them fire.  Mutants on which nothing fires are listed per function for triage (many are behaviour-preserving or
irrelevant to every property; the list only says where to look).

usage: tools/blindspots.py [--jobs 16] [--files glob-substring ...] [--out blindspots.jsonl] [--limit N]
"""
import argparse
import ast
import concurrent.futures
import json
import os
import shutil
import subprocess
import sys
import tempfile

VERIF = os.path.dirname(os.path.dirname(os.path.abspath(__file__)))
REPO = os.environ.get('VERIF_REPO', '/repo')
PY = '/venv/bin/python' if os.path.exists('/venv/bin/python') else sys.executable
SKIP = ('templates/', 'cli.py', 'VERSION')
PROPS = ['C%02d' % i for i in range(1, 21)]


def seg(src_lines, node):
    """(start offset, end offset) of a node in the joined source."""
    def off(line, col):
        return sum(len(l) for l in src_lines[:line - 1]) + len(src_lines[line - 1].encode('utf-8')[:col].decode('utf-8'))
    return off(node.lineno, node.col_offset), off(node.end_lineno, node.end_col_offset)


def func_of(node):
    names = []
    n = getattr(node, '_parent', None)
    while n is not None:
        if isinstance(n, (ast.FunctionDef, ast.AsyncFunctionDef, ast.ClassDef)):
            names.append(n.name)
        elif isinstance(n, ast.Lambda):
            names.append('<lambda>')
        n = getattr(n, '_parent', None)
    return '.'.join(reversed(names)) or '<module>'


def mutants_of(rel, source):
    tree = ast.parse(source)
    for n in ast.walk(tree):
        for c in ast.iter_child_nodes(n):
            c._parent = n
    lines = source.splitlines(keepends=True)
    out = []

    def add(node, kind, repl):
        s, e = seg(lines, node)
        out.append(dict(file=rel, func=func_of(node), line=node.lineno, kind=kind, orig=source[s:e][:160], start=s, end=e, repl=repl))

    for node in ast.walk(tree):
        par = getattr(node, '_parent', None)
        infunc = func_of(node) != '<module>'
        if isinstance(node, ast.Expr) and isinstance(node.value, ast.Constant):
            continue    # docstring
        if isinstance(node, (ast.Assign, ast.AugAssign, ast.AnnAssign, ast.Expr, ast.Delete)) and infunc:
            if isinstance(node, ast.Expr) and isinstance(node.value, (ast.Yield, ast.YieldFrom)):
                add(node, 'drop-yield', 'pass' if _other_yields(node) else 'yield from ()')
            else:
                add(node, 'drop-stmt', 'pass')
        elif isinstance(node, ast.Return) and node.value is not None and infunc:
            pass
        elif isinstance(node, ast.Raise) and infunc:
            add(node, 'drop-raise', 'pass')
        elif isinstance(node, ast.Assert) and infunc:
            add(node, 'drop-assert', 'pass')
        elif isinstance(node, ast.Break):
            add(node, 'break->continue', 'continue')
        elif isinstance(node, ast.Continue):
            add(node, 'continue->pass', 'pass')
        if isinstance(node, (ast.If, ast.While, ast.IfExp)) and infunc:
            t = node.test
            s, e = seg(lines, t)
            out.append(dict(file=rel, func=func_of(node), line=t.lineno, kind='negate-test', orig=source[s:e][:160], start=s, end=e,
                            repl='(not (%s))' % source[s:e]))
        if isinstance(node, ast.comprehension) and node.ifs and infunc:
            t = node.ifs[0]
            s, e = seg(lines, t)
            out.append(dict(file=rel, func=func_of(t), line=t.lineno, kind='negate-filter', orig=source[s:e][:160], start=s, end=e,
                            repl='(not (%s))' % source[s:e]))
    return out


def _other_yields(node):
    f = getattr(node, '_parent', None)
    while f is not None and not isinstance(f, (ast.FunctionDef, ast.AsyncFunctionDef)):
        f = getattr(f, '_parent', None)
    if f is None:
        return True
    cnt = 0
    stack = list(f.body)
    while stack:
        n = stack.pop()
        if isinstance(n, (ast.FunctionDef, ast.AsyncFunctionDef, ast.Lambda, ast.ClassDef)):
            continue
        if isinstance(n, (ast.Yield, ast.YieldFrom)):
            cnt += 1
        stack.extend(ast.iter_child_nodes(n))
    return cnt > 1


def run_mutant(m):
    tmp = tempfile.mkdtemp(prefix='verif-blind-')
    try:
        shutil.copytree(os.path.join(REPO, 'dataflows'), os.path.join(tmp, 'dataflows'), ignore=shutil.ignore_patterns('__pycache__'))
        p = os.path.join(tmp, m['file'])
        with open(p) as fh:
            s = fh.read()
        s2 = s[:m['start']] + m['repl'] + s[m['end']:]
        try:
            compile(s2, p, 'exec')
        except SyntaxError as e:
            return dict(m, status='nocompile')
        with open(p, 'w') as fh:
            fh.write(s2)
        env = dict(os.environ, VERIF_REPO=tmp, VERIF_EVIDENCE_DIR=os.path.join(tmp, 'ev'), VERIF_NO_AUDIT='1')
        fired, errs = [], []
        for prop in PROPS:
            r = subprocess.run([PY, '-B', '-m', 'sa.cli', prop], cwd=VERIF, env=env, capture_output=True, text=True)
            if r.returncode == 1:
                fired.append(prop)
            elif r.returncode != 0:
                errs.append(prop)
        return dict(m, status='done', fired=fired, errors=errs)
    finally:
        shutil.rmtree(tmp, ignore_errors=True)


def main():
    ap = argparse.ArgumentParser()
    ap.add_argument('--jobs', type=int, default=16)
    ap.add_argument('--files', nargs='*')
    ap.add_argument('--out', default='blindspots.jsonl')
    ap.add_argument('--limit', type=int)
    a = ap.parse_args()
    ms = []
    for d, _, fs in os.walk(os.path.join(REPO, 'dataflows')):
        for f in sorted(fs):
            if not f.endswith('.py'):
                continue
            rel = os.path.relpath(os.path.join(d, f), REPO)
            if any(x in rel for x in SKIP):
                continue
            if a.files and not any(x in rel for x in a.files):
                continue
            with open(os.path.join(d, f)) as fh:
                src = fh.read()
            ms.extend(mutants_of(rel, src))
    if a.limit:
        ms = ms[:a.limit]
    print('mutants: %d' % len(ms), flush=True)
    done = 0
    with open(a.out, 'w') as out, concurrent.futures.ThreadPoolExecutor(max_workers=a.jobs) as ex:
        for r in ex.map(run_mutant, ms):
            r.pop('start', None); r.pop('end', None)
            out.write(json.dumps(r) + '\n')
            out.flush()
            done += 1
            if done % 50 == 0:
                print('done %d' % done, flush=True)
    print('finished', flush=True)


if __name__ == '__main__':
    main()
