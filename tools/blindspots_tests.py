#!/usr/bin/env python3
"""Maintainer tool (never run by a check): second stage of the blind-spot sweep.  Takes the mutants on which no check fired
(tools/blindspots.py output) and runs the repository's pinned test-suite on each (stop at first failure), in scratch copies
outside /repo and /verif.  A mutant that the checks AND the tests let through is a place where a behaviour-changing edit would go
unnoticed (or an equivalent mutant): the list is what to read when looking for missing clauses.

usage: tools/blindspots_tests.py <sweep.jsonl> [--jobs 10] [--out survivors.jsonl] [--files substr ...]
"""
import argparse
import concurrent.futures
import json
import os
import shutil
import subprocess
import sys
import tempfile

sys.path.insert(0, os.path.dirname(os.path.abspath(__file__)))
import blindspots  # noqa: E402

REPO = '/repo'
PY = '/venv/bin/python'
DESELECT = ['tests/test_cli.py::test_init_remote', 'tests/test_examples.py::test_example_3',
            'tests/test_examples.py::test_example_4', 'tests/test_examples.py::test_example_5']


def run_one(m):
    tmp = tempfile.mkdtemp(prefix='verif-bt-')
    try:
        subprocess.run('git -C %s archive HEAD | tar -x -C %s' % (REPO, tmp), shell=True, check=True)
        p = os.path.join(tmp, m['file'])
        with open(p) as fh:
            s = fh.read()
        with open(p, 'w') as fh:
            fh.write(s[:m['start']] + m['repl'] + s[m['end']:])
        cmd = ['timeout', '600', PY, '-m', 'pytest', '-x', '-q', '-p', 'no:cacheprovider', '--timeout=300']
        for d in DESELECT:
            cmd += ['--deselect', d]
        r = subprocess.run(cmd, cwd=tmp, env=dict(os.environ, PYTHONPATH=tmp), capture_output=True, text=True)
        tail = (r.stdout.strip().splitlines() or [''])[-1]
        return dict({k: v for k, v in m.items() if k not in ('start', 'end', 'repl')}, tests_rc=r.returncode, tests_tail=tail[:160])
    finally:
        shutil.rmtree(tmp, ignore_errors=True)


def main():
    ap = argparse.ArgumentParser()
    ap.add_argument('sweep')
    ap.add_argument('--jobs', type=int, default=10)
    ap.add_argument('--out', default='blindspots-tests.jsonl')
    ap.add_argument('--files', nargs='*')
    a = ap.parse_args()
    surv = set()
    with open(a.sweep) as fh:
        for ln in fh:
            r = json.loads(ln)
            if r['status'] == 'done' and not r['fired'] and not r['errors']:
                surv.add((r['file'], r['line'], r['kind'], r['orig']))
    ms = []
    for d, _, fs in os.walk(os.path.join(REPO, 'dataflows')):
        for f in sorted(fs):
            if not f.endswith('.py'):
                continue
            rel = os.path.relpath(os.path.join(d, f), REPO)
            if any(x in rel for x in blindspots.SKIP) or (a.files and not any(x in rel for x in a.files)):
                continue
            with open(os.path.join(d, f)) as fh:
                src = fh.read()
            for m in blindspots.mutants_of(rel, src):
                if (m['file'], m['line'], m['kind'], m['orig']) in surv:
                    ms.append(m)
    print('mutants to test: %d (of %d static survivors)' % (len(ms), len(surv)), flush=True)
    n = 0
    with open(a.out, 'w') as out, concurrent.futures.ThreadPoolExecutor(max_workers=a.jobs) as ex:
        for r in ex.map(run_one, ms):
            out.write(json.dumps(r) + '\n')
            out.flush()
            n += 1
            if n % 25 == 0:
                print('done %d' % n, flush=True)
    print('finished', flush=True)


if __name__ == '__main__':
    main()
