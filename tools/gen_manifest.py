#!/usr/bin/env python3
"""Regenerates MANIFEST.json from the table below (kept in one place so it always validates)."""
import json
import os

HERE = os.path.dirname(os.path.dirname(os.path.abspath(__file__)))

CHECKS = {
    'C01': dict(
        technique='static analysis: path enumeration of the dispatch loop, def-use (deep-copy isolation), call-shape of entry points, generator typestate of package steps',
        text='Decides the structural clauses of C01 on every path of the code: every link is dispatched or rejected (R1), each step edits a deep copy of the upstream descriptor (R2), results/process/datastream fold the same chain and the shared driver drains every stream (R3), descriptors and streams are paired without truncation (R4), every function-style package step yields the package first and never writes the descriptor afterwards (R5). It does not decide the behavioural equality of lazy and step-by-step evaluation over all programs and inputs.',
        note="Own ast-based resolver (no type checker available); LF1 (datapackage Resource/Package descriptor ownership); steps are located by the framework's own dispatch key (parameter name).",
        ref='DESIGN.md §5 C01'),
    'C02': dict(
        technique='static analysis: guarded path signatures (descriptor count vs stream count per guard valuation), def-use phase coupling, abstract interpretation over the Table-Schema type lattice, isinstance-order rule',
        text='Decides necessary structural conditions of C02: one yielded stream per emitted descriptor under every valuation of the selection atoms (R6a/R6b, R4, R26), row wrappers of field-changing steps configured from what was written into the schema and using it (R11), declared types of join / add_computed_field aggregates above their abstractly computed types (R18), no shadowed isinstance branch in type inference (R17), descriptor edits only under MATCH (R7), a name-collision test before a new resource is added (R27). Value validity for user callables, tabulator inference and data-dependent cases is not decided.',
        note='Known findings (listed, reported as KNOWN-FINDING): median over integers, name collisions of sources/duplicate/concatenate/load/explicit iterable names. concatenate run detection is not modelled. LF1, LF8.',
        ref='DESIGN.md §5 C02'),
    'C04': dict(
        technique='static analysis: classification of every except handler (always-raises / narrow local fallback / frozen), no-return proof of the funnel helper, stash re-raise def-use, commit-point ordering on enumerated paths',
        text='Decides that no handler on a run path swallows an exception (R14), that the funnel helper raises on all paths and carries cause and step identity (R14f), that stashed source errors are re-raised after inference (R14s), and that checkpoint rename / dump descriptor / finalisation sit after the loop over all streams and outside except/finally (R15). Does not decide behaviour of third-party iterators or of worker processes.',
        note='Known findings: parallelize.producer / parallelize.work swallow errors (three handlers). Python generator semantics (an exception at a yield leaves the loop) is trusted.',
        ref='DESIGN.md §5 C04'),
    'C06': dict(
        technique='static analysis: interprocedural stream-level abstract interpretation (iterator-of-resources / iterator-of-rows / other) to a fixpoint, sink classification, accumulate-then-yield rule, lazy-chain shape',
        text='Decides that in all non-buffering modules no upstream stream reaches a materialising sink (list/sorted/len/comprehension/*/tee/join...), the only accepted bounded idiom being list(islice(s, const)); that generators yield inside the loop that reads upstream; and that the chain is built lazily (LazyIterator over get_iterator, no iteration in _process). The numeric bound itself and user callables are not decided.',
        note='Buffering steps (sort_rows, join, duplicate, dump_to_sql, parallelize) are outside the property quantifier and out of scope; the terminal driver safe_process is exempt. Lazy behaviour of itertools / zip / enumerate / map / filter and of tabulator/datapackage iterators is trusted.',
        ref='DESIGN.md §5 C06'),
    'C10': dict(
        technique='static analysis: abstract kind inference of matcher arguments, branch-by-branch check of the matcher class, guard dominance in package phases, unmatched-path identity signatures in stream phases, call arity binding',
        text='Decides that every ResourceMatcher is built from a Package / package descriptor (R8), that the matcher class implements the four selector forms (None/str anchored/int by index/list) and the three answers of match() (RM, R9), that descriptor edits are dominated by MATCH (R7), that unmatched resources are yielded once as the identical object in every selector-taking step (R6c), and that every resolved call binds to its callee signature (R10). Regex semantics beyond anchoring are not decided.',
        note='Known finding: printer builds its matcher from a resource descriptor (integer selectors fail).',
        ref='DESIGN.md §5 C10'),
}

NOT_BUILT = 'check not built yet in this session (see DESIGN.md §5 for the planned static rules)'


def main():
    checks = []
    for pid in sorted(CHECKS):
        c = CHECKS[pid]
        checks.append(dict(
            property_id=pid,
            quick_cmd='./check %s --tier quick' % pid,
            thorough_cmd='./check %s --tier thorough' % pid,
            evidence_file='/verif/evidence/%s.json' % pid,
            replay_cmd_template='./check --replay {path}',
            engine='sa',
            level_claimed=dict(category='other', text=c['text'], design_ref=c['ref']),
            level_note=c['note'],
            technique=c['technique'],
        ))
    na = []
    for i in range(1, 21):
        pid = 'C%02d' % i
        if pid not in CHECKS:
            na.append(dict(property_id=pid, reason=NA.get(pid, NOT_BUILT)))
    man = dict(
        version=1,
        setup_cmd='sh -c \'if [ -x /venv/bin/python ]; then PY=/venv/bin/python; else PY=python3; fi; $PY -B -m compileall -q sa rules checks >/dev/null && echo setup-ok\'',
        hooks=dict(guard='DATAHQ_DATAFLOWS_VERIF',
                   enable='none needed: the checks parse /repo\'s working tree with ast and never run it; no hook commits exist',
                   baseline_off_cmd='cd /repo && /venv/bin/python -m pytest -ra -q -p no:cacheprovider --timeout=900 --continue-on-collection-errors',
                   source_commits=[], add_only=True),
        engines=[dict(name='sa', path='/verif/sa', serves_properties=sorted(CHECKS),
                      kind_free_text='repository-specific static analyser (pure stdlib ast): own import/class/call resolver, syntax-directed path enumeration with guard atoms, def-use/dependence facts, small abstract interpreters; rules in /verif/rules, per-property drivers in /verif/checks')],
        checks=checks,
        not_applicable=na,
        notes='Exit codes: 0 = all obligations discharged (KNOWN-FINDING lines allowed), 1 = unlisted violation, 2 = ANALYSIS-ERROR (anchor vanished / floor not met / internal error). Known findings: /verif/known_findings.json.',
    )
    with open(os.path.join(HERE, 'MANIFEST.json'), 'w') as fh:
        json.dump(man, fh, indent=1)
        fh.write('\n')


NA = {}

if __name__ == '__main__':
    main()
