#!/usr/bin/env python3
"""Regenerates MANIFEST.json from the table below (kept in one place so it always validates)."""
import json
import os

HERE = os.path.dirname(os.path.dirname(os.path.abspath(__file__)))

CHECKS = {
    'C01': dict(
        technique='static analysis: path enumeration of the dispatch loop, def-use (deep-copy isolation), call-shape of entry points, generator typestate of package steps',
        text='Decides the structural clauses of C01 on every path of the code: every link is dispatched or rejected (R1), each step edits a deep copy of the upstream descriptor (R2), results/process/datastream fold the same chain and the shared driver drains every stream (R3), descriptors and streams are paired without truncation (R4), every function-style package step yields the package first and never writes the descriptor afterwards (R5). It does not decide the behavioural equality of lazy and step-by-step evaluation over all programs and inputs.',
        note="Own ast-based resolver (no type checker available); LF1 (datapackage Resource/Package descriptor ownership); steps are located by the framework's own dispatch key (parameter name).",
        ref='DESIGN.md §5 C01'),
    'C02': dict(
        technique='static analysis: guarded path signatures (descriptor count vs stream count per guard valuation), def-use phase coupling, abstract interpretation over the Table-Schema type lattice, isinstance-order rule',
        text='Decides necessary structural conditions of C02: one yielded stream per emitted descriptor under every valuation of the selection atoms (R6a/R6b, R4, R26), row wrappers of field-changing steps configured from what was written into the schema and using it (R11), declared types of join / add_computed_field aggregates above their abstractly computed types (R18), no shadowed isinstance branch in type inference (R17), descriptor edits only under MATCH (R7), a name-collision test before a new resource is added (R27). Value validity for user callables, tabulator inference and data-dependent cases is not decided.',
        note='Known findings (listed, reported as KNOWN-FINDING): median over integers, name collisions of sources/duplicate/concatenate/load/explicit iterable names. concatenate run detection is not modelled. LF1, LF8.',
        ref='DESIGN.md §5 C02'),
    'C04': dict(
        technique='static analysis: classification of every except handler (always-raises / narrow local fallback / frozen), no-return proof of the funnel helper, stash re-raise def-use, commit-point ordering on enumerated paths',
        text='Decides that no handler on a run path swallows an exception (R14), that the funnel helper raises on all paths and carries cause and step identity (R14f), that stashed source errors are re-raised after inference (R14s), and that checkpoint rename / dump descriptor / finalisation sit after the loop over all streams and outside except/finally (R15). Does not decide behaviour of third-party iterators or of worker processes.',
        note='Known findings: parallelize.producer / parallelize.work swallow errors (three handlers). Python generator semantics (an exception at a yield leaves the loop) is trusted.',
        ref='DESIGN.md §5 C04'),
    'C06': dict(
        technique='static analysis: interprocedural stream-level abstract interpretation (iterator-of-resources / iterator-of-rows / other) to a fixpoint, sink classification, accumulate-then-yield rule, lazy-chain shape',
        text='Decides that in all non-buffering modules no upstream stream reaches a materialising sink (list/sorted/len/comprehension/*/tee/join...), the only accepted bounded idiom being list(islice(s, const)); that generators yield inside the loop that reads upstream; and that the chain is built lazily (LazyIterator over get_iterator, no iteration in _process). The numeric bound itself and user callables are not decided.',
        note='Buffering steps (sort_rows, join, duplicate, dump_to_sql, parallelize) are outside the property quantifier and out of scope; the terminal driver safe_process is exempt. Lazy behaviour of itertools / zip / enumerate / map / filter and of tabulator/datapackage iterators is trusted.',
        ref='DESIGN.md §5 C06'),
    'C10': dict(
        technique='static analysis: abstract kind inference of matcher arguments, branch-by-branch check of the matcher class, guard dominance in package phases, unmatched-path identity signatures in stream phases, call arity binding',
        text='Decides that every ResourceMatcher is built from a Package / package descriptor (R8), that the matcher class implements the four selector forms (None/str anchored/int by index/list) and the three answers of match() (RM, R9), that descriptor edits are dominated by MATCH (R7), that unmatched resources are yielded once as the identical object in every selector-taking step (R6c), and that every resolved call binds to its callee signature (R10). Regex semantics beyond anchoring are not decided.',
        note='Known finding: printer builds its matcher from a resource descriptor (integer selectors fail).',
        ref='DESIGN.md §5 C10'),
}

CHECKS.update({
    'C03': dict(
        technique='static analysis: entry-by-entry agreement of writer-side tables (serializers, null markers, effective csv dialect from the stdlib, suffix, encoding) with the descriptor properties stamped for the reader, over platform-dependent constant sets; dominance and def-use rules',
        text='Decides the table-shaped necessary conditions of the CSV/JSON round trip: temporal write format == stamped parse format for every member of the constant sets, str() lexical forms of booleans/numbers/nulls are the stamped ones, the stamped CSV dialect equals the effective dialect of the writer constructed, prepare_resource stamps format/suffix/encoding and chains to the per-type dialect merge, None is mapped to the null marker before any serializer, object-row formats must normalise column order (LF2), the copy-out path depends on the rewritten descriptor path, datapackage loading casts, temporal_format_property is consistent. Value-level round-trip equality is not decided.',
        note='Known finding: JSON format with non-alphabetical field names cannot be loaded back (tabulator sorts keys). LF2, LF3 (csv.excel read from the stdlib), LF4.',
        ref='DESIGN.md §5 C03'),
    'C05': dict(
        technique='static analysis: row-loop shape on enumerated paths (one identity yield, no row store, no early exit, one write per row), ordering constraints for framing/finalisation, stream-consumption signatures, finalizer ordering',
        text='Decides that every observer row loop (printer, stream writer, file dumper, row counter, checkpoint notifier, base loop used by finalizer/update_stats) re-yields the identical row exactly once per iteration and writes it exactly once; that framing and finalisation follow the loops; that every step consumes (yields or drains) each upstream resource and the driver drains; that the finalizer callback fires once after the complete iterator. Behaviour of downstream user steps is not decided.',
        note='Observers located by role from the property anchors; generator semantics trusted.',
        ref='DESIGN.md §5 C05'),
    'C07': dict(
        technique='static analysis: writer/reader tag-table agreement, format-constant set evaluation, isinstance-order rule, timedelta.seconds rule, chain-replacement shape, line-framing shape',
        text='Decides that the typed JSON encoder and decoder agree on tags, payload shapes and formats, that datetime is tested before date, that the UTC offset is converted with total_seconds (R24), that an existing checkpoint replaces exactly the preceding links, and that stream/unstream agree on one-document-per-line framing with blank-line resource separators. Value-level round trip through json/isodate is not decided.',
        note='LF7 (timedelta.seconds in [0,86400)).',
        ref='DESIGN.md §5 C07'),
    'C08': dict(
        technique='static analysis: typestate temp -> closed -> renamed on enumerated paths; who-may-open/rename census of the writer modules; reader-side name agreement',
        text='Decides that the only file opened for writing by the checkpoint writer is <final>+constant non-empty suffix, that the single rename maps exactly that temp name to the final name, after close, after the complete resource loop and never from except/finally, and that the reader tests and opens the final name only; the driver stops pulling at the first failure (no swallowing handler in the driver module). Power-loss durability is not decided.',
        note='LF6 (rename atomicity on POSIX).',
        ref='DESIGN.md §5 C08'),
    'C09': dict(
        technique='static analysis: ordering constraints on one temp-file value, alias classification of stat targets, counter/value role tables, descriptor sealing after serialisation, path dependence, nondeterminism census',
        text='Decides order finalize<tell/hash<close<copy on the same temp file, that every counter is written into the package descriptor tree (not a private Resource copy) under its own configured name with the right kind of value, that nothing is stored into the descriptor between serialisation and stats read-out, that the copy-out path depends on the hashed descriptor path, and that no clock/random source occurs in the dumpers. That tell() equals byte size for every text is not decided.',
        note='Known finding: datapackage.json size is added to the bytes counter after the descriptor was serialised. LF1.',
        ref='DESIGN.md §5 C09'),
    'C11': dict(
        technique='static analysis: guarded path signature of the per-row loop over {KeyError, mode == inner}, post-loop emission shape, aggregator table vs canonicalised definitions',
        text='Decides structure only: per target row found/extend/yield-once, unmatched inner -> dropped, unmatched outer -> yielded once with nulls, full-outer emission of unused source keys after the loop, usage-flag protocol, deduplication emission, aggregator folds/finalisers in their documented (canonicalised) form, index-before-target assertion, descriptor/stream count agreement. That aggregates equal their definitions on all inputs, key rendering and spill equivalence are NOT decided.',
        note='LF5 (KVFile). Headline behaviour (aggregate values) is a runtime-value quantifier.',
        ref='DESIGN.md §5 C11'),
    'C12': dict(
        technique='static analysis: def-use of the storage key on the enumerate index, option-flow of reverse/batch_size, width-domain abstract evaluation of the key expression',
        text='Decides structure only: every row stored under sort key + fixed-width row number and yielded once, the output loop over the store is the only delivery path, reverse/batch_size reach only their sinks and not the key, shape of the numeric encoding, and (R22) that a variable-width key component is last or separated. Correctness of the order itself on values is NOT decided.',
        note='Known findings: key followed by row number without separator; multi-field keys concatenated without separator. LF5.',
        ref='DESIGN.md §5 C12'),
    'C13': dict(
        technique='static analysis: option-guarded wrapper installation per flag valuation, row-loop shapes, raise-or-rename path signature, strategy tables, selection agreement and consumption of skipped iterators',
        text='Decides structure only: wrappers applied exactly when their option is set and in the order extract-missing, cast, strip, limit, limiter shape (init 0, yield, increment, break on >=), stripper/stringer/extractor shapes, duplicate headers raise unless de-duplication requested, strategy tables, equal selection of descriptors and iterators including draining skipped iterators. CSV fidelity and inference are NOT decided.',
        note='tabulator semantics trusted.',
        ref='DESIGN.md §5 C13'),
    'C14': dict(
        technique='static analysis: control-dependence shape of the validator loop, constant-return analysis of the policy table, def-use option flow of set_type/validate',
        text='Decides that a row is yielded exactly when no handler answered drop, that the cast value is stored under the field it was read from, that only CastError is intercepted and routed to on_error(name,row,index,error,field), the four predefined policies and the arity adapter, and that set_type/validate hand policy and matched field names to the validator with transform before cast. That Table Schema cast is correct is not decided.',
        note='LF8.',
        ref='DESIGN.md §5 C14'),
    'C15': dict(
        technique='static analysis: def-use phase coupling, anchoring and regex-switch rules, guard dominance, row-rebuild shape, field-order nesting rules, operation table vs definitions and abstract types',
        text='Decides that field-level steps configure their row wrappers from what they wrote into the schema, anchor and escape name patterns, edit only matched resources, keep values untouched when rebuilding rows (rename defaulting to the key), follow the documented field order, store computed values only under the target name and apply the documented operations. Computed values themselves are not decided.',
        note='',
        ref='DESIGN.md §5 C15'),
    'C16': dict(
        technique='static analysis: guarded descriptor/stream count signatures, append-order rule, save/replay wiring by def-use, typestate of concatenate target placement',
        text='Decides count agreement, identity of untouched resources and consumption for delete_resource/duplicate/update_resource/concatenate, upstream-first ordering for iterable_loader/load/sources, duplicate save-then-replay from the same store with index keys, concatenate row expansion, counting and single target placement. Field mapping on values and KVFile value fidelity are not decided.',
        note='LF5.',
        ref='DESIGN.md §5 C16'),
    'C17': dict(
        technique='static analysis: row-loop signatures of the three row wrappers, complementary schema split, phase coupling',
        text='Decides that filter yields the identical row iff condition(row), that deduplicate drops exactly rows whose primary-key tuple was seen and records new keys on the yielding path, that unpivot yields one fresh row per (row, unpivoted field) made of key copy + kept fields + cell, and that the schema split is complementary. Equality semantics on values are not decided.',
        note='',
        ref='DESIGN.md §5 C17'),
    'C18': dict(
        technique='static analysis: channel model built from spawn sites (actors, queues by creation site, parameter bindings); end-marker protocol conditions (count agreement, ordering, exactly-one put/forward per path, marker discipline per queue kind) on producer, worker, collector and consumer',
        text='Decides ONLY necessary conditions of the queue protocol: marker counts derive from one value, markers follow rows, each row is put and forwarded exactly once on every path, the collector signals completion only at zero, the consumer yields until the marker, queue operations block without timeouts, and every actor that puts rows on a queue is ordered before that queue\'s end marker (on a multi-process queue: puts the marker itself). The property\'s headline "for every interleaving" is NOT decided: no static argument in reach bounds schedules (that needs a model checker, a different family).',
        note='Failure paths are C04 known findings.',
        ref='DESIGN.md §5 C18'),
    'C19': dict(
        technique='static analysis: commit-point ordering on enumerated paths (post-loop, not in except/finally, single writer of datapackage.json, copy after finalize and close); path-wise value of the copy destination',
        text='Decides that handle_datapackage runs once after the loop over all resource streams and outside except/finally, that datapackage.json is written by one function after json.dump and close, that each data file is copied out after finalize_file and close after its row loop from the temp file that was measured, that streams go through process_resource, and that write_file_to_output places the file under its final name before returning while no other dumper method moves files. Atomicity of shutil.copy is not decided.',
        note='LF6; sequential draining by the driver (C01/C05 R3).',
        ref='DESIGN.md §5 C19'),
    'C20': dict(
        technique='static analysis: guarded path signature of process_resource over {mapped, rewrite&exists, exists, update}, option flow into storage.write, row-loop shape of the downstream rows',
        text='Decides structure only: delete iff rewrite and exists, create iff absent, decided on a Storage created when the resource is processed, update keys iff update mode defaulting to the primary key, options reach the writer, downstream rows are the written rows with truthful optional flags. Table contents (tableschema-sql semantics) and dump histories are NOT decided.',
        note='Known finding: array/object values are rewritten in place in rows that continue downstream.',
        ref='DESIGN.md §5 C20'),
})

NOT_BUILT = 'check not built yet in this session (see DESIGN.md §5 for the planned static rules)'



# clauses added after the fourth round of seeded changes (DESIGN §11 round 4) and the findings they led to
GEN = (' Generic defect patterns are decided on the files the property is anchored in before the specific rules run: no class-level '
       'mutable container is mutated through an instance (R31), no closure kept beyond a loop iteration reads a variable the loop rebinds '
       '(R32), no mapping keyed by an itertools.groupby key is built over a sequence that is not sorted by that key (R33), and no step class or '
       'step factory in those files leaves state to the next run of the same step object (R34: nothing accumulated into constructor state, no '
       'factory-scope name rebound by a run and read before it is set, no object the factory was given changed in place), and no function '
       'changes the state of an object created in its own default argument (R35).')
MORE = {
    'C01': ' R34c (helpers only): a helper processor built by Flow._chain holds nothing a run uses up unless _chain builds the chain on every call.'
           ' R1k replays every path of the dispatch loop on a finite set of abstract link kinds (nested Flow, processor, function, bound method, '
           'partial / callable object, empty and non-empty list / tuple of rows, generator, None, integer; vacuous all()/any() over an empty '
           'collection evaluated as such): a path a kind definitely takes must end in the outcome that kind calls for.'
           ' results() differs from process() / datastream() only by the schema validator: its row loop (shared clause VAL with C14) yields each '
           'row itself with, per checked field, that field\'s own cast of that row\'s value.',
    'C03': ' R12w: starting from FileFormat.write_row and following every self / super call that is handed the row, no writer method keeps the '
           'row or the transformed row in its own state (the bytes of a row are fixed before it continues downstream). R19d: no path of '
           'write_file_to_output that skips an existing file is open to datapackage.json.',
    'C04': ' The rename that commits a stream file, or a helper containing it, is called from the package step only (who-may-reach clause of R15).'
           ' R14s: the source error stashed by iterable_loader is read after inference, compared with None (never tested for truth) and re-raised '
           'before the descriptor is added.',
    'C05': ' R12w (writer keeps no row) as in C03; who-may-reach clause of R15 for the stream writer.',
    'C02': ' R11i: the stream iterable_loader adds is <the inferred Resource>.iter(keyed=True), so rows are projected onto the inferred fields.'
           ' CMP (shared with C15): add_computed_field hands each operation exactly the row\'s non-null source values, which is what the abstract '
           'evaluation of the operation table (R18c) assumes.',
    'C16': ' SRC: a sub-flow resource of sources() is never re-paired through a lookup keyed by its name.',
    'C17': ' The matcher-asked clause of R6c for filter_rows / deduplicate / unpivot. KEY-DERIVATION: per unpivoted field and key template, '
           'path by path, keys[k] = re.sub(entry name, template, field name) exactly when regex is on and the template is a string, otherwise '
           'the template; the mapping is fresh per field and stored as the field\'s keys.',
    'C19': ' R14 (with contextlib.suppress counted as a handler) over the driver and the dumper modules.',
    'C06': ' R13h: a stream a step has yielded downstream is not drained, materialised or iterated by that step in the statements that follow '
           '(how far a stream is read is decided by its consumer alone).',
    'C07': ' R34: what the constructor of a step stores is not accumulated into or rebound from its own previous value by a run (classes), and a '
           'step function grows nothing that belongs to its factory scope (closures): running the same Flow object again - which is how a '
           'checkpointed pipeline is run again - does not continue from the previous run. The decoder decides naive / aware on the offset '
           'component the encoder makes None exactly for naive datetimes, and never tests a decoded value for truth. R34c: nothing a run uses up '
           '(open file / archive / key-value store, generator, DataStream) is created by a constructor or step factory (known: stream, unstream).',
    'C08': ' Who-may-reach clause of R15: only the package step reaches the rename.',
    'C09': ' Writing through a with block and json.dumps + write are read as close-after-block and json.dump (file idioms). R19d: every write_file_to_output path that returns without placing the file carries a test that excludes the descriptor, so the '
           'descriptor on disk is always the one of this run.',
    'C10': ' A step that builds a matcher and does more to a resource stream than hand it on asks the matcher in its stream phase too (R6c). '
           'R9 also demands that a user pattern anchored by concatenation is enclosed in a group (an alternation escapes ^...$).',
    'C12': ' R32 (late-binding closures) on the key calculator. KEYW: the stored key is <key calculator>(row) + row number and '
           'KeyCalc.__call__ returns what the calculator returns for the row on every path (no cut, fold or strip on the way to the store).',
    'C13': ' R33 (groupby over unsorted headers) on the header de-duplication; limit_rows is tested against None and the limiter yields nothing for 0.',
    'C14': ' R9 grouping clause on the field-name pattern of set_type.',
    'C15': ' R9 grouping clause on the field-name patterns of delete_fields / select_fields / rename_fields.',
    'C20': ' Guards are read with flag locals resolved, and the value of the update keys that reaches storage.write at the end of each path is '
           'non-None exactly in update mode.',
}

# clauses added after round 6 and the double-blind sweep (DESIGN 11b)
MORE2 = {
    'C16': " CATS: in concatenate's package phase names(target fields) and the still-needed names partition the keys of `fields` on every "
           "path, every name left is declared at the end, and the row builder is given all keys of `fields` and the mapping the schema was "
           "built with. DUP: duplicate emits a copy only for the resource whose name equals the source name (never through a pattern match).",
    'C09': " Guard roles: a test of the counter attribute enclosing its write has positive polarity; inside a scan over the descriptors a "
           "per-resource counter is written under the name-equality test; set_attr stores and get_attr returns the stored value; every chunk "
           "hash_handler reads reaches the digest (text as UTF-8 bytes). R19d: an existing data file is left in place only under a content-addressed path.",
    'C20': " The engine schema differs from the emitted one only in the type of array / object fields. describe iff the table exists; a path that drops and a path that keeps the existing table both exist; the fixers collected for "
           "array / object fields are applied in list order to the value under the field name; strize is the documented (kind -> result) "
           "table, jsonize is json.dumps, sqlite declares array / object columns as string.",
    'C15': " find_replace leaves neither the loop over the listed fields nor the loop over their patterns early. NEW-FIELDS: the package phase of add_computed_field declares one field per spec ({name, type=get_type(...)} or a copy of the "
           "target descriptor).",
    'C02': " UPK: update_package removes `resources` from the user's metadata before updating the descriptor. R18t: the field join declares "
           "for an aggregate takes its type from the aggregator or from the source field and carries the source field's properties exactly "
           "for copyProperties aggregators. CATS and NEW-FIELDS as in C16 / C15; an any-typed source makes a computed field `any`.",
    'C07': " The zone name reaches timezone(offset, name) only under `name is not None`. The extended-JSON encoder writes dates with the "
           "platform-probed format. The checkpoint directory is os.path.join(checkpoint_path, checkpoint_name) with the name as given.",
    'C11': " median and update_counter are decided path by path (None / even / odd; nothing new / text as one item / running value made a "
           "Counter); R18t as in C02.",
    'C01': " R1a: the dispatch partitions user callables at exactly one parameter. R1m: the code that decides what a link is consults no module-level container the library also fills and no memoised helper.",
    'C06': " LAC: the three constants that bound look-ahead (in-memory sample, reader sample default, SQL write batch default) are integer "
           "literals <= 10**4. R13q: every queue created in the modules of row-wise steps has a capacity that is provably >= 1.",
    'C13': " END: after the zip() loop that pairs descriptors and loaded streams the stream iterator is iterated to its end (a (descriptor, "
           "iterators) source is exhausted within the run). VAL (shared with C14): CAST_WITH_SCHEMA casts every checked field of every row.",
    'C04': " END as in C13: a source flow handed to load() is exhausted, so a step of it failing at end of stream fails this run.",
    'C03': " The format temporal values are written with is the platform-probed constant (one of its values pads the year). R19d: an existing "
           "data file is left in place only under a content-addressed path.",
    'C08': " The checkpoint directory is os.path.join(checkpoint_path, checkpoint_name) with the name as given.",
    'C05': " FIN: finalizer passes the stream on completely before it merges the stats and calls back, exactly once. The checkpoint directory is os.path.join(checkpoint_path, checkpoint_name) with the name as given.",
    'C18': " (j) the worker processes are not daemonic. (g0) no Barrier / Event / Condition wait of the protocol gives up after a timeout (decided before the channel model is built). (f) also: the test of the collecting loop is constant-true (or `(row := q.get()) is not None`), so the loop ends at the marker only.",
}
MORE3 = {
    'C03': " File dumpers refuse a resource whose path is the descriptor's name and a resource whose output path another resource of the "
           "package already takes (two clauses of R15); the output path is read after the hash directory is inserted.",
    'C09': " File dumpers refuse a resource whose output path is 'datapackage.json' or is taken already by another resource of the package "
           "(R15): sizes and hashes are recorded per file.",
    'C19': " File dumpers refuse a resource whose output path is 'datapackage.json' (reserved-name clause of R15) or is taken already by "
           "another resource of the package (unique-path clause).",
    'C13': " OPT: the reader defaults keep every data line, the schema is inferred with confidence=1 and the inferred fields are given back "
           "the stream's own headers. The state load keeps per run (descriptors, iterators) is re-created before anything is appended to "
           "it on every path (R34: a rebinding on another branch is no reset).",
    'C16': " CAT also: once the scan of concatenate is past the selected run, a further selected resource is refused.",
    'C10': " CAT: concatenate refuses a selected resource that follows unselected ones after the selected run.",
    'C11': " The fold of source rows into the index, the full-outer emission and the de-duplication branch are decided on the paths of "
           "the loop bodies (what is stored where the source value is / is not None; which loop follows the row loop in which mode).",
    'C14': " VAL: the keep-flag of the validator changes only in the CastError handler and only when the policy answers false; the row is "
           "yielded exactly when the flag still has its first value (decided on paths, whatever the flag's polarity).",
}
MORE4 = {
    'C01': " R1c: Flow.__init__ keeps all its links and the checkpoint fold hands every link on.",
    'C02': " The concatenate clauses (CAT: every resource of the run rebuilt row by row, one descriptor for the run) are run here too.",
    'C03': " R16j: the object json.dumps is given for a row is the transformed row itself (GeoJSON: its entries as properties).",
    'C04': " R14x: no __exit__ method defined in the library returns a value that may be true.",
    'C05': " R16j as in C03. R6d: a recording observer runs the generator it handed downstream to its end before it goes on (reported as "
           "two known findings: a consumer that stops early leaves dumpers and checkpoints with a part of the stream).",
    'C06': " Rows held back in a container inside the row loop are flushed on a test of the container's size.",
    'C07': " R34 (c): an attribute that runs rebind is not read by a run before that run has bound it; the Flow class is a subject of R34.",
    'C08': " The generic rules (R34 in particular) are run on dataflows/base/flow.py as well: the checkpoint is handed its links by "
           "Flow._preprocess_chain on every run.",
    'C09': " WRC: in FileDumper.rows_processor a row is yielded (and so counted) iff write_row was called for it outside any try.",
    'C10': " R7e: update_resource / update_schema / set_primary_key edit every resource the selector matched. R29d: what they store is "
           "copied per resource.",
    'C12': " KEYP: the key calculator stores into, and calls mutators on, its own locals only.",
    'C17': " KEY-DERIVATION: the template is expanded on the full match that selected the field.",
}
MORE5 = {
    'C01': " HLP also: each helper class overrides only its own hook.",
    'C02': " PKW: a schema's primaryKey is stored / deleted only by set_primary_key and by concatenate for its own target. R27 also asks "
           "the renaming step: update_resource checks a `name` it is given against the package (reported as a known finding).",
    'C04': " SRC: the resource iterator of a sub-flow of sources() is iterated to its end.",
    'C05': " The generic rules also run on validate.py, to_path.py and to_zip.py (observers the property names).",
    'C07': " R16 also: the time / datetime payload carries the microsecond (reported as two known findings).",
    'C08': " R14g: no GeneratorExit / BaseException handler or finally block in a generator of stream / checkpoint / unstream loops, drains, "
           "advances or yields.",
    'C09': " R16j: a written row is one JSON object / GeoJSON feature on every path of the writer.",
    'C11': " KEY: the list of key fields keeps the order of the key specification.",
    'C13': " PRS: load registers no parser of its own for a format tabulator reads itself ('sql' excepted).",
    'C20': " UBF: the default of use_bloom_filter is False (reported as a known finding: the storage library's bloom filter takes an "
           "existing number / any typed key for new).",
    'C16': " SRC end clause as in C04. SMP: iterable_storage reads the iterable only as a bounded slice into the sample that is chained back.",
}
GEN = GEN.replace('(R35).', '(R35), and none changes a module-level container (R36).') if '(R35).' in GEN else GEN
for _pid, _c in CHECKS.items():
    _c['text'] = _c['text'] + MORE.get(_pid, '') + MORE2.get(_pid, '') + MORE3.get(_pid, '') + MORE4.get(_pid, '') + MORE5.get(_pid, '') + GEN
    if 'generic defect-pattern rules' not in _c['technique']:
        _c['technique'] = _c['technique'] + '; generic defect-pattern rules on the anchored files (shared class state, late-binding closures, groupby runs, run idempotence)'

def main():
    checks = []
    for pid in sorted(CHECKS):
        c = CHECKS[pid]
        checks.append(dict(
            property_id=pid,
            quick_cmd='./check %s --tier quick' % pid,
            thorough_cmd='./check %s --tier thorough' % pid,
            evidence_file='/verif/evidence/%s.json' % pid,
            replay_cmd_template='./check --replay {path}',
            engine='sa',
            level_claimed=dict(category='other', text=c['text'], design_ref=c['ref']),
            level_note=c['note'],
            technique=c['technique'],
        ))
    na = []
    for i in range(1, 21):
        pid = 'C%02d' % i
        if pid not in CHECKS:
            na.append(dict(property_id=pid, reason=NA.get(pid, NOT_BUILT)))
    man = dict(
        version=1,
        setup_cmd='sh -c \'if [ -x /venv/bin/python ]; then PY=/venv/bin/python; else PY=python3; fi; $PY -B -m compileall -q sa rules checks >/dev/null && echo setup-ok\'',
        hooks=dict(guard='DATAHQ_DATAFLOWS_VERIF',
                   enable='none needed: the checks parse /repo\'s working tree with ast and never run it; no hook commits exist',
                   baseline_off_cmd='cd /repo && /venv/bin/python -m pytest -ra -q -p no:cacheprovider --timeout=900 --continue-on-collection-errors',
                   source_commits=[], add_only=True),
        engines=[dict(name='sa', path='/verif/sa', serves_properties=sorted(CHECKS),
                      kind_free_text='repository-specific static analyser (pure stdlib ast): own import/class/call resolver, syntax-directed path enumeration with guard atoms, def-use/dependence facts, small abstract interpreters; rules in /verif/rules, per-property drivers in /verif/checks')],
        checks=checks,
        not_applicable=na,
        notes='Exit codes: 0 = all obligations discharged (KNOWN-FINDING lines allowed), 1 = unlisted violation, 2 = ANALYSIS-ERROR (anchor vanished / floor not met / internal error). Known findings: /verif/known_findings.json.',
    )
    with open(os.path.join(HERE, 'MANIFEST.json'), 'w') as fh:
        json.dump(man, fh, indent=1)
        fh.write('\n')


NA = {}

if __name__ == '__main__':
    main()
