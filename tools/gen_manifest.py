#!/usr/bin/env python3
"""Regenerates MANIFEST.json from the table below (kept in one place so it always validates)."""
import json
import os

HERE = os.path.dirname(os.path.dirname(os.path.abspath(__file__)))

CHECKS = {
    'C01': dict(
        technique='static analysis: path enumeration of the dispatch loop, def-use (deep-copy isolation), call-shape of entry points, generator typestate of package steps',
        text='Decides the structural clauses of C01 on every path of the code: every link is dispatched or rejected (R1), each step edits a deep copy of the upstream descriptor (R2), results/process/datastream fold the same chain and the shared driver drains every stream (R3), descriptors and streams are paired without truncation (R4), every function-style package step yields the package first and never writes the descriptor afterwards (R5). It does not decide the behavioural equality of lazy and step-by-step evaluation over all programs and inputs.',
        note='Own ast-based resolver (no type checker available); LF1 (datapackage Resource/Package descriptor ownership); steps are located by the framework\'s own dispatch key (parameter name).',
        ref='DESIGN.md §5 C01'),
}

NOT_BUILT = 'check not built yet in this session (see DESIGN.md §5 for the planned static rules)'


def main():
    checks = []
    for pid in sorted(CHECKS):
        c = CHECKS[pid]
        checks.append(dict(
            property_id=pid,
            quick_cmd='./check %s --tier quick' % pid,
            thorough_cmd='./check %s --tier thorough' % pid,
            evidence_file='/verif/evidence/%s.json' % pid,
            replay_cmd_template='./check --replay {path}',
            engine='sa',
            level_claimed=dict(category='other', text=c['text'], design_ref=c['ref']),
            level_note=c['note'],
            technique=c['technique'],
        ))
    na = []
    for i in range(1, 21):
        pid = 'C%02d' % i
        if pid not in CHECKS:
            na.append(dict(property_id=pid, reason=NA.get(pid, NOT_BUILT)))
    man = dict(
        version=1,
        setup_cmd='sh -c \'if [ -x /venv/bin/python ]; then PY=/venv/bin/python; else PY=python3; fi; $PY -B -m compileall -q sa rules checks >/dev/null && echo setup-ok\'',
        hooks=dict(guard='DATAHQ_DATAFLOWS_VERIF',
                   enable='none needed: the checks parse /repo\'s working tree with ast and never run it; no hook commits exist',
                   baseline_off_cmd='cd /repo && /venv/bin/python -m pytest -ra -q -p no:cacheprovider --timeout=900 --continue-on-collection-errors',
                   source_commits=[], add_only=True),
        engines=[dict(name='sa', path='/verif/sa', serves_properties=sorted(CHECKS),
                      kind_free_text='repository-specific static analyser (pure stdlib ast): own import/class/call resolver, syntax-directed path enumeration with guard atoms, def-use/dependence facts, small abstract interpreters; rules in /verif/rules, per-property drivers in /verif/checks')],
        checks=checks,
        not_applicable=na,
        notes='Exit codes: 0 = all obligations discharged (KNOWN-FINDING lines allowed), 1 = unlisted violation, 2 = ANALYSIS-ERROR (anchor vanished / floor not met / internal error). Known findings: /verif/known_findings.json.',
    )
    with open(os.path.join(HERE, 'MANIFEST.json'), 'w') as fh:
        json.dump(man, fh, indent=1)
        fh.write('\n')


NA = {}

if __name__ == '__main__':
    main()
