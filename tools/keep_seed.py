#!/usr/bin/env python3
"""Maintainer tool: store a confirmed seeded change under /verif/seeded/<name>/ (patch.diff, demo.py, meta.json).
usage: tools/keep_seed.py <name> <seed-dir> <result.json> "<caught by / notes>" """
import json, os, shutil, sys
name, seed, result, notes = sys.argv[1:5]
dst = os.path.join(os.path.dirname(os.path.dirname(os.path.abspath(__file__))), 'seeded', name)
os.makedirs(dst, exist_ok=True)
shutil.copy(os.path.join(seed, 'patch.diff'), dst)
shutil.copy(os.path.join(seed, 'demo.py'), dst)
meta = json.load(open(os.path.join(seed, 'meta.json')))
res = json.load(open(result))
# (re)check that the patched package byte-compiles (templates/main.tpl.py is a Jinja template, excluded)
import subprocess, tempfile
tmp = tempfile.mkdtemp(prefix='verif-keep-')
shutil.copytree('/repo/dataflows', os.path.join(tmp, 'dataflows'), ignore=shutil.ignore_patterns('__pycache__'))
ap = subprocess.run(['patch', '-p1', '-s', '-d', tmp, '-i', os.path.join(seed, 'patch.diff')]).returncode
cp = subprocess.run([sys.executable, '-m', 'compileall', '-q', '-x', 'templates', os.path.join(tmp, 'dataflows')], capture_output=True).returncode
shutil.rmtree(tmp)
res['compiles'] = (ap == 0 and cp == 0)
ok = res.get('apply') and res.get('compiles') and res['demo_rc_without'] == 0 and res['demo_rc_with'] != 0 and res['suite_rc_with'] == 0
out = dict(property=meta['property'], summary=meta.get('summary'), needs=meta.get('needs'), files=meta.get('files'),
           author='independent sub-agent given only the property text and a scratch worktree',
           confirmed_by_me=dict(res, all_confirmed=bool(ok),
                                how='tools/verify_seed.sh: fresh scratch worktree of /repo HEAD; demo before/after `git apply`; '
                                    'pytest (4 network tests deselected) with the patch; worktree removed afterwards'),
           detection=notes)
json.dump(out, open(os.path.join(dst, 'meta.json'), 'w'), indent=1)
print('kept' if ok else 'NOT CONFIRMED', name, res)
