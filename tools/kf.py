#!/usr/bin/env python3
"""Maintainer tool (never used by a check): add an entry to known_findings.json from a violation replay file.
usage: tools/kf.py known|fixed <violation.json> "<what>" [commit]"""
import json, sys, os
HERE = os.path.dirname(os.path.dirname(os.path.abspath(__file__)))
status, vf, what = sys.argv[1:4]
commit = sys.argv[4] if len(sys.argv) > 4 else None
v = json.load(open(vf))
p = os.path.join(HERE, 'known_findings.json')
d = json.load(open(p))
e = dict(property=v['property'], rule=v['rule'], status=status, function=v['function'], construct=v['construct'], what=what)
if commit:
    e['commit'] = commit
d['findings'] = [x for x in d['findings'] if not (x['property'] == e['property'] and x['rule'] == e['rule'] and x['function'] == e['function'] and x['construct'] == e['construct'])]
d['findings'].append(e)
json.dump(d, open(p, 'w'), indent=1)
print('added', status, e['property'], e['rule'], e['function'])
