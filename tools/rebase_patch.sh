#!/bin/sh
# Maintainer tool: re-express a stored patch over a later fix: commit of /repo.
# usage: tools/rebase_patch.sh <patch> <old-commit (the patch applies there)>   -> rewrites <patch> against /repo HEAD (3-way merge per file)
P="$1"; OLD="$2"; T=$(mktemp -d /tmp/rebase.XXXXXX)
mkdir -p $T/old $T/pat $T/new $T/out
git -C /repo archive "$OLD" dataflows | tar -x -C $T/old
cp -r $T/old/dataflows $T/pat/
git -C /repo archive HEAD dataflows | tar -x -C $T/new
cp -r $T/new/dataflows $T/out/
patch -p1 -s -d $T/pat -i "$P" || { echo "does not apply at $OLD"; rm -rf $T; exit 2; }
RC=0
for f in $(cd $T/pat && find dataflows -name '*.py' -newer $T/old/dataflows -o -name '*.py' | sort -u); do
  if ! cmp -s $T/pat/$f $T/old/$f 2>/dev/null; then
    if [ -f $T/old/$f ] && [ -f $T/new/$f ]; then
      cp $T/pat/$f $T/out/$f
      git merge-file -q $T/out/$f $T/old/$f $T/new/$f || { echo "CONFLICT in $f"; RC=1; }
    else
      cp $T/pat/$f $T/out/$f
    fi
  fi
done
if [ $RC = 0 ]; then (cd $T && diff -ruN new/dataflows out/dataflows | sed 's#^--- new/#--- a/#; s#^+++ out/#+++ b/#; s#^diff -ruN new/\(.*\) out/\(.*\)#diff --git a/\1 b/\2#' > "$P.rebased"); mv "$P.rebased" "$P"; echo "rebased $P"; else cat $T/out/dataflows/processors/dumpers/to_path.py 2>/dev/null | head -60; fi
rm -rf $T; exit $RC
