#!/usr/bin/env python3
"""Maintainer tool: apply a patch to a scratch copy of /repo/dataflows and run checks on it.
usage: tools/try_patch.py <patch.diff> [--demo demo.py] [props...]   (default: all 20)"""
import os, shutil, subprocess, sys, tempfile
VERIF = os.path.dirname(os.path.dirname(os.path.abspath(__file__)))
args = sys.argv[1:]
patch = os.path.abspath(args.pop(0))
demo = None
if args and args[0] == '--demo':
    args.pop(0); demo = os.path.abspath(args.pop(0))
props = args or ['C%02d' % i for i in range(1, 21)]
PY = '/venv/bin/python' if os.path.exists('/venv/bin/python') else sys.executable
tmp = tempfile.mkdtemp(prefix='verif-try-')
try:
    shutil.copytree('/repo/dataflows', os.path.join(tmp, 'dataflows'), ignore=shutil.ignore_patterns('__pycache__'))
    if demo:
        wd = os.path.join(tmp, 'cwd'); os.makedirs(wd)
        r = subprocess.run(['timeout', '300', PY, demo], cwd=wd, env=dict(os.environ, PYTHONPATH=tmp), capture_output=True, text=True)
        print('demo on UNPATCHED copy: rc=%d' % r.returncode, (r.stderr or r.stdout).strip().splitlines()[-1:] )
        shutil.rmtree(wd)
    r = subprocess.run(['patch', '-p1', '-s', '-d', tmp, '-i', patch], capture_output=True, text=True)
    if r.returncode:
        print('PATCH FAILED', r.stdout, r.stderr); sys.exit(2)
    if demo:
        wd = os.path.join(tmp, 'cwd'); os.makedirs(wd)
        r = subprocess.run(['timeout', '300', PY, demo], cwd=wd, env=dict(os.environ, PYTHONPATH=tmp), capture_output=True, text=True)
        print('demo on PATCHED copy:   rc=%d' % r.returncode, (r.stderr or r.stdout).strip().splitlines()[-1:])
        shutil.rmtree(wd)
    env = dict(os.environ, VERIF_REPO=tmp, VERIF_EVIDENCE_DIR=os.path.join(tmp, 'ev'), VERIF_NO_AUDIT='1')
    caught, errors = [], []
    for p in props:
        r = subprocess.run([PY, '-B', '-m', 'sa.cli', p], cwd=VERIF, env=env, capture_output=True, text=True)
        if r.returncode != 0:
            (caught if r.returncode == 1 else errors).append(p)
            print('== %s rc=%d' % (p, r.returncode))
            for ln in r.stdout.splitlines():
                if ln.startswith('  ') and not ln.startswith('    path') or ln.startswith('ANALYSIS'):
                    print('   ', ln[:260])
    print('caught by:', caught or 'NOTHING', ('   ANALYSIS-ERROR only (exit 2): %s' % errors) if errors else '')
finally:
    shutil.rmtree(tmp, ignore_errors=True)
