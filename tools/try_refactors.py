#!/usr/bin/env python3
"""Maintainer tool: run all 20 checks against behaviour-preserving refactoring diffs; any non-zero exit is a false alarm (or an
analysis error) to look at.  usage: tools/try_refactors.py <dir-or-glob of *.diff> [...]"""
import glob, os, shutil, subprocess, sys, tempfile, concurrent.futures
VERIF = os.path.dirname(os.path.dirname(os.path.abspath(__file__)))
PY = '/venv/bin/python'
def one(diff):
    tmp = tempfile.mkdtemp(prefix='verif-rf-')
    out = []
    try:
        shutil.copytree('/repo/dataflows', os.path.join(tmp, 'dataflows'), ignore=shutil.ignore_patterns('__pycache__'))
        r = subprocess.run(['patch', '-p1', '-s', '-d', tmp, '-i', diff], capture_output=True, text=True)
        if r.returncode:
            return diff, ['PATCH FAILED ' + r.stdout[:200]]
        env = dict(os.environ, VERIF_REPO=tmp, VERIF_EVIDENCE_DIR=os.path.join(tmp, 'ev'), VERIF_NO_AUDIT='1')
        for i in range(1, 21):
            p = 'C%02d' % i
            r = subprocess.run([PY, '-B', '-m', 'sa.cli', p], cwd=VERIF, env=env, capture_output=True, text=True)
            if r.returncode:
                lines = [l for l in r.stdout.splitlines() if (l.startswith('  ') and not l.startswith('    path')) or l.startswith('ANALYSIS')]
                out.append('%s rc=%d: %s' % (p, r.returncode, ' || '.join(l.strip()[:230] for l in lines[:4])))
    finally:
        shutil.rmtree(tmp, ignore_errors=True)
    return diff, out
diffs = []
for a in sys.argv[1:]:
    a = os.path.abspath(a)
    diffs += sorted(glob.glob(os.path.join(a, '*.diff'))) if os.path.isdir(a) else sorted(glob.glob(a))
n_alarm = 0
with concurrent.futures.ThreadPoolExecutor(max_workers=8) as ex:
    for diff, out in ex.map(one, diffs):
        tag = '/'.join(diff.split('/')[-2:])
        print('==', tag, 'SILENT' if not out else 'ALARM')
        n_alarm += bool(out)
        for o in out:
            print('    ', o)
print('total %d, alarms %d' % (len(diffs), n_alarm))
