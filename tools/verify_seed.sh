#!/bin/sh
# Maintainer tool: confirm a seeded change in a fresh scratch worktree of /repo (outside /repo and /verif), then remove it.
# usage: tools/verify_seed.sh <name> <seed-dir containing patch.diff + demo.py>  -> /tmp/vt/<name>.result.json
NAME="$1"; SEED="$2"; WT=/tmp/vt/$NAME; OUT=/tmp/vt/$NAME.result.json
mkdir -p /tmp/vt; rm -rf "$WT"; git -C /repo worktree prune
git -C /repo worktree add -q --detach "$WT" HEAD || exit 2
mkdir -p "$WT/_cwd"
( cd "$WT/_cwd" && PYTHONPATH="$WT" timeout 600 /venv/bin/python "$SEED/demo.py" >"$WT/_demo0.log" 2>&1 ); D0=$?
rm -rf "$WT/_cwd"; mkdir -p "$WT/_cwd"
git -C "$WT" apply "$SEED/patch.diff" || { echo "{\"name\":\"$NAME\",\"apply\":false}" > "$OUT"; git -C /repo worktree remove --force "$WT"; exit 2; }
/venv/bin/python -m compileall -q -x "templates" "$WT/dataflows" >/dev/null 2>&1; CMP=$?
( cd "$WT/_cwd" && PYTHONPATH="$WT" timeout 600 /venv/bin/python "$SEED/demo.py" >"$WT/_demo1.log" 2>&1 ); D1=$?
rm -rf "$WT/_cwd"
( cd "$WT" && PYTHONPATH="$WT" timeout 1500 /venv/bin/python -m pytest -q -p no:cacheprovider --timeout=900 --deselect tests/test_cli.py::test_init_remote --deselect tests/test_examples.py::test_example_3 --deselect tests/test_examples.py::test_example_4 --deselect tests/test_examples.py::test_example_5 >"$WT/_suite.log" 2>&1 ); SU=$?
SUM=$(tail -1 "$WT/_suite.log" | tr -d '"=')
T0=$(tail -1 "$WT/_demo0.log" | tr -d '"\\' | cut -c1-200); T1=$(tail -1 "$WT/_demo1.log" | tr -d '"\\' | cut -c1-200)
echo "{\"name\":\"$NAME\",\"apply\":true,\"compiles\":$([ $CMP = 0 ] && echo true || echo false),\"demo_rc_without\":$D0,\"demo_rc_with\":$D1,\"suite_rc_with\":$SU,\"suite_summary\":\"$SUM\",\"demo_without_tail\":\"$T0\",\"demo_with_tail\":\"$T1\"}" > "$OUT"
git -C /repo worktree remove --force "$WT"
cat "$OUT"
